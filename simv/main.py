"""Command line entry: ./check <ID> --tier quick|thorough ; ./check replay <file>."""
from __future__ import annotations

import argparse
import importlib
import os
import sys

sys.path.insert(0, os.path.dirname(os.path.dirname(os.path.abspath(__file__))))
sys.dont_write_bytecode = True

from simv.core import env  # noqa: E402


def main(argv=None):
    ap = argparse.ArgumentParser(prog="check")
    ap.add_argument("what", help="property id (C02, C03, ...), 'replay' or 'setup'")
    ap.add_argument("path", nargs="?", help="replay file (with 'replay')")
    ap.add_argument("--tier", default=os.environ.get("VERIF_TIER", "quick"), choices=["quick", "thorough"])
    a = ap.parse_args(argv)
    if a.path:
        a.path = os.path.abspath(a.path)   # bootstrap() moves the process into its sandbox directory
    env.bootstrap()
    from simv.core import engine

    if a.what == "setup":
        import fasteners, msgpack, molli_xt  # noqa: F401,E401
        print("setup ok: molli, fasteners, msgpack, molli_xt importable; sandbox", env.SANDBOX)
        return 0
    if a.what == "replay":
        if not a.path:
            ap.error("replay needs a file")
        return engine.replay(a.path)
    pid = a.what.upper()
    if pid not in engine.CHECK_MODULES:
        print(f"unknown property {pid}; claimed: {sorted(engine.CHECK_MODULES)}")
        return 2
    mod = importlib.import_module(engine.CHECK_MODULES[pid])
    return engine.run_check(mod, a.tier)


if __name__ == "__main__":
    try:
        rc = main()
    except SystemExit:
        raise
    except BaseException:  # noqa: BLE001 - never let a harness crash look like a verdict
        import traceback

        traceback.print_exc()
        print("HARNESS-ERROR unhandled exception in driver")
        rc = 2
    sys.stdout.flush()
    sys.exit(rc)
