"""Conformance of the SimSpawn + FakeExec stubs against the real /venv/bin/_molli_run
with real `sh -c` commands: three fixed jobs are executed both ways; exit status and the
decoded JobOutput must agree.  Deterministic (no timing), runs in the quick tier."""
from __future__ import annotations

import os
import shutil
import subprocess
import sys

from ..core import env
from ..core.kernel import HarnessError
from ..stubs.jobsim import FakeExec, SimSpawn, pipeline_seams

JOBS = {
    "ok": {
        "commands": [("sh -c 'echo hello; echo warn >&2; printf DATA > r.txt'", "first"), ("sh -c 'cat in.txt; exit 0'", "second")],
        "files": {"in.txt": "input text\n"}, "return_files": ("r.txt", "in.txt"), "envars": {"MOLLI_CONF_VAR": "42"},
    },
    "second_fails": {
        "commands": [("sh -c 'printf A > a.dat'", "one"), ("sh -c 'echo boom >&2; exit 3'", "two"), ("sh -c 'printf C > c.dat'", "three")],
        "files": None, "return_files": ("a.dat", "c.dat"), "envars": None,
    },
    "missing_return": {
        "commands": [("sh -c 'echo $MOLLI_CONF_VAR'", "envecho"), ("sh -c 'true'", None)],
        "files": {"b.bin": b"\x00\x01\xff"}, "return_files": ("never.txt", "b.bin"), "envars": {"MOLLI_CONF_VAR": "from-job"},
    },
}


def _fake_sh(argv, rec, fe):
    """What the three jobs' sh -c scripts do, as FakeExec behaviours."""
    script = argv[2]
    env_ = rec["env"] or {}
    if script == "echo hello; echo warn >&2; printf DATA > r.txt":
        return {"out": "hello\n", "err": "warn\n", "files": {"r.txt": b"DATA"}}
    if script == "cat in.txt; exit 0":
        return {"out": rec["contents"].get("in.txt", b"").decode()}
    if script == "printf A > a.dat":
        return {"files": {"a.dat": b"A"}}
    if script == "echo boom >&2; exit 3":
        return {"err": "boom\n", "rc": 3}
    if script == "printf C > c.dat":
        return {"files": {"c.dat": b"C"}}
    if script == "echo $MOLLI_CONF_VAR":
        return {"out": env_.get("MOLLI_CONF_VAR", "") + "\n"}
    if script == "true":
        return {}
    raise HarnessError(f"conformance: unexpected script {script!r}")


def _decode(path):
    from molli.pipeline import JobOutput

    if not os.path.isfile(path):
        return None
    jo = JobOutput.load(path)
    return {"stdouts": jo.stdouts, "stderrs": jo.stderrs, "files": jo.files, "exitcode": jo.exitcode, "input_hash": jo.input_hash}


def run() -> dict:
    from molli.pipeline import JobInput

    root = os.path.join(env.SANDBOX, "conf-molli-run")
    shutil.rmtree(root, ignore_errors=True)
    report = {}
    try:
        for name, spec in JOBS.items():
            results = {}
            for how in ("real", "sim"):
                d = os.path.join(root, name, how)
                os.makedirs(os.path.join(d, "work"))
                ji = JobInput(f"conf_{name}", commands=spec["commands"], files=spec["files"], return_files=spec["return_files"], envars=spec["envars"])
                inp = os.path.join(d, "job.inp")
                ji.dump(inp)
                argv = [os.path.join(os.path.dirname(sys.executable), "_molli_run"), inp, "-o", os.path.join(d, "out"), "-s", os.path.join(d, "scratch")]
                if how == "real":
                    e = dict(os.environ)
                    if env.REPO != "/repo":
                        e["PYTHONPATH"] = env.REPO + os.pathsep + e.get("PYTHONPATH", "")
                    p = subprocess.run(argv, cwd=os.path.join(d, "work"), capture_output=True, encoding="utf8", env=e, timeout=120)
                    rc = p.returncode
                else:
                    fe = FakeExec(_fake_sh)
                    sp = SimSpawn()
                    with pipeline_seams(fe, sp):
                        p = sp(argv, cwd=os.path.join(d, "work"), capture_output=True, encoding="utf8")
                    rc = p.returncode
                results[how] = {"rc": rc, "output": _decode(os.path.join(d, "out", "job.out")),
                                "scratch_left": sorted(os.listdir(os.path.join(d, "scratch"))) if os.path.isdir(os.path.join(d, "scratch")) else None}
            if results["real"] != results["sim"]:
                raise HarnessError(f"CONFORMANCE-MISMATCH SimSpawn/FakeExec vs real _molli_run on job {name!r}: real={results['real']} sim={results['sim']}")
            report[name] = {"rc": results["real"]["rc"], "agree": True}
    finally:
        shutil.rmtree(root, ignore_errors=True)
    return report
