"""Conformance of SimLockMech (the simulated fcntl record-lock table) against real
fcntl.lockf through the real fasteners.InterProcessReaderWriterLock.

The same script of NON-BLOCKING lock operations runs (a) in two real OS processes
sequenced by pipes - no timing anywhere, every outcome is determined - and (b) in two
simulated processes on the simulated kernel.  The outcome tables must be identical.
Covers: W excludes W and R across processes; R shares with R; re-lock through a second
handle inside the owning process succeeds; closing ANY handle of the owning process on
the lock file drops its lock (POSIX); conversion R->W is refused while another process
holds R and granted afterwards; process exit drops the lock; a lock file that is unlinked and
re-created is a different lock (the lock belongs to the inode).
"""
from __future__ import annotations

import os
import shutil

from ..core import env
from ..core import kernel as K
from ..core.kernel import HarnessError

# (process, action, handle)
SCRIPT = [
    ("A", "tryW", 0), ("B", "tryW", 0), ("B", "tryR", 0),
    ("A", "tryW", 1),           # second handle, same process: POSIX locks are per process
    ("A", "rel", 1),            # ... and closing it drops the process's lock on the file
    ("B", "tryW", 0),           # so B gets it now
    ("A", "tryR", 0), ("A", "tryW", 0),
    ("B", "rel", 0),
    ("A", "tryR", 0), ("B", "tryR", 0),   # shared
    ("B", "tryW", 0),           # conversion refused while A reads
    ("A", "rel", 0),
    ("B", "tryW", 0),           # conversion granted
    ("A", "tryR", 0), ("A", "tryW", 0),
    ("B", "rel", 0),
    ("A", "tryW", 0),
    ("B", "unlink", 0),         # the lock FILE is removed while A holds the lock on its inode ...
    ("B", "tryW", 2),           # ... a new handle creates a new file: a different lock, granted
    ("A", "tryW", 3),           # A's new handle sees the new file too: held by B
    ("B", "rel", 2),
    ("A", "rel", 0), ("A", "rel", 3),
    ("B", "tryW", 0),
    ("B", "exit", 0),           # dies holding the lock
    ("A", "tryW", 0), ("A", "rel", 0),
]


def _do(locks, action, h, mk, lockpath=None, unlink=os.unlink):
    if action == "unlink":
        unlink(lockpath)
        return None
    if h not in locks:
        locks[h] = mk()
    lk = locks[h]
    if action == "tryW":
        return lk.acquire_write_lock(blocking=False)
    if action == "tryR":
        return lk.acquire_read_lock(blocking=False)
    if action == "rel":
        lk.release_write_lock()   # unlock + close handle (same code path for read locks)
        return None
    raise ValueError(action)


def _real(lockpath):
    import fasteners

    def mk():
        return fasteners.InterProcessReaderWriterLock(lockpath)

    c2p_r, c2p_w = os.pipe()
    p2c_r, p2c_w = os.pipe()
    pid = os.fork()
    if pid == 0:  # process B
        try:
            os.close(c2p_r)
            os.close(p2c_w)
            locks = {}
            rf = os.fdopen(p2c_r, "r")
            wf = os.fdopen(c2p_w, "w")
            for line in rf:
                action, h = line.split()
                if action == "exit":
                    wf.write("None\n")
                    wf.flush()
                    os._exit(0)
                r = _do(locks, action, int(h), mk, lockpath)
                wf.write(f"{r}\n")
                wf.flush()
        finally:
            os._exit(0)
    os.close(c2p_w)
    os.close(p2c_r)
    rf = os.fdopen(c2p_r, "r")
    wf = os.fdopen(p2c_w, "w")
    locks = {}
    out = []
    try:
        for proc, action, h in SCRIPT:
            if proc == "A":
                out.append(_do(locks, action, h, mk, lockpath))
            else:
                wf.write(f"{action} {h}\n")
                wf.flush()
                ans = rf.readline().strip()
                out.append({"True": True, "False": False, "None": None}[ans])
                if action == "exit":
                    os.waitpid(pid, 0)
    finally:
        try:
            wf.close()
            rf.close()
        except OSError:
            pass
    return out


def _sim(lockpath):
    from ..core.seams import storage_seams
    import molli.storage.backends as backends

    kern = K.Kernel()
    out = []
    with storage_seams(kern):
        Lock = backends.InterProcessReaderWriterLock   # the real fasteners class over SimLockMech

        def mk():
            return Lock(lockpath)

        locks = {"A": {}, "B": {}}
        pids = {"A": 1, "B": 2}
        for proc, action, h in SCRIPT:
            kern.cur_pid = pids[proc]
            if action == "exit":
                kern.reap(pids[proc])
                out.append(None)
                continue
            out.append(_do(locks[proc], action, h, mk, lockpath, unlink=kern.sys_unlink))
        kern.cur_pid = 0
        if kern.counters["seam:trylock"] == 0:
            raise HarnessError("SEAM-LOST seam:trylock in lock conformance")
    return out


def run() -> dict:
    d = os.path.join(env.SANDBOX, "conf-lock")
    shutil.rmtree(d, ignore_errors=True)
    os.makedirs(d)
    try:
        real = _real(os.path.join(d, "real.lock"))
        sim = _sim(os.path.join(d, "sim.lock"))
    finally:
        shutil.rmtree(d, ignore_errors=True)
    if real != sim:
        rows = [f"{i}:{s}: real={r} sim={m}" for i, (s, r, m) in enumerate(zip(SCRIPT, real, sim)) if r != m]
        raise HarnessError("CONFORMANCE-MISMATCH SimLockMech vs real fcntl: " + "; ".join(rows))
    return {"steps": len(SCRIPT), "agree": True, "outcomes": [str(x) for x in real]}
