"""Conformance of the simulated disk (SimFS / SimRaw under the real CPython buffering layer) against a real file.

The same seeded scripts of file operations - opens in every mode the storage layer (or a plausible change to it) uses
(rb, r+b, w+b, x+b, a+b), writes of assorted sizes, absolute / relative / end-relative seeks incl. far beyond the end,
reads, truncates, tells, flushes, closes and reopens - run against `sim_open` and against `open` on a real temporary
file, with the same `buffering` argument (0, 16, 64, 4096, 8192; explicit, because the default of a real file is its st_blksize).  After every operation the result (bytes read, offsets
returned, number of bytes written, exception type) must be identical, and after every close the file contents must be
identical byte for byte.  No timing, no concurrency: every outcome is determined.
"""
from __future__ import annotations

import io
import os
import random
import shutil

from ..core import env
from ..core import kernel as K
from ..core.kernel import HarnessError

MODES = ["r+b", "r+b", "rb", "a+b", "w+b"]


def _script(seed, n=160):
    r = random.Random(seed)
    ops = [("open", "x+b" if seed % 2 else "w+b")]
    tag = 0
    for _ in range(n):
        c = r.random()
        if c < 0.30:
            tag += 1
            ops.append(("write", tag, r.choice([0, 1, 5, 5, 17, 63, 64, 65, 200, 9000])))
        elif c < 0.45:
            ops.append(("seek", r.choice([0, 0, 3, 10, 100, 5000]), 0))
        elif c < 0.52:
            ops.append(("seek", r.choice([-3, 0, 0, 7, 4096]), 2))
        elif c < 0.57:
            ops.append(("seek", r.choice([-2, 0, 5]), 1))
        elif c < 0.72:
            ops.append(("read", r.choice([0, 1, 5, 16, 64, 300, -1])))
        elif c < 0.78:
            ops.append(("truncate", r.choice([None, None, 0, 7, 100, 3000])))
        elif c < 0.84:
            ops.append(("tell",))
        elif c < 0.89:
            ops.append(("flush",))
        else:
            ops.append(("close",))
            ops.append(("open", r.choice(MODES)))
    ops.append(("close",))
    return ops


def _run(ops, opener, buffering):
    out = []
    f = None
    for op in ops:
        try:
            if op[0] == "open":
                f = opener(op[1], buffering)
                res = ("opened", f.tell())
            elif op[0] == "write":
                data = (f"<{op[1]}>".encode() * (op[2] // 3 + 1))[: op[2]]
                res = f.write(data)
            elif op[0] == "seek":
                res = f.seek(op[1], op[2])
            elif op[0] == "read":
                res = f.read(op[1])
            elif op[0] == "truncate":
                res = f.truncate(op[1])
            elif op[0] == "tell":
                res = f.tell()
            elif op[0] == "flush":
                res = f.flush()
            elif op[0] == "close":
                f.close()
                res = ("closed", opener("rb", -1, True))
            else:
                raise HarnessError(f"unknown op {op}")
        except HarnessError:
            raise
        except (OSError, ValueError, io.UnsupportedOperation) as e:
            res = ("raised", type(e).__name__)
        out.append(res)
    return out


def run():
    base = os.path.join(env.SANDBOX, f"conf-fs-{os.getpid()}")
    shutil.rmtree(base, ignore_errors=True)
    os.makedirs(base)
    checked = 0
    try:
        for seed in range(24):
            ops = _script(seed)
            for buffering in (0, 16, 64, 4096, 8192):
                real_path = os.path.join(base, f"f{seed}_{buffering}.bin")

                def real_open(mode, buf, whole=False, _p=real_path):
                    if whole:
                        with open(_p, "rb") as g:
                            return g.read()
                    return open(_p, mode, buffering=buf)

                real = _run(ops, real_open, buffering)
                from ..core.seams import storage_seams

                kern = K.Kernel(bufsize=8192)
                kern.keep_log = False
                with storage_seams(kern):
                    def sim_open(mode, buf, whole=False):
                        if whole:
                            return kern.image("conf.bin")
                        return K.sim_open("conf.bin", mode, buffering=buf)

                    sim = _run(ops, sim_open, buffering)
                for i, (a, b) in enumerate(zip(real, sim)):
                    if a != b:
                        def short(x):
                            return repr(x) if not isinstance(x, (bytes, tuple)) or len(repr(x)) < 120 else repr(x)[:120] + "..."
                        raise HarnessError(f"SimFS conformance: script {seed}, buffering={buffering}, step {i} {ops[i]}: real file gave {short(a)}, "
                                           f"simulated file gave {short(b)} (previous ops: {ops[max(0, i - 4):i]})")
                checked += len(ops)
    finally:
        shutil.rmtree(base, ignore_errors=True)
    return {"scripts": 24, "buffering": [0, 16, 64, 4096, 8192], "operations_compared": checked, "result": "identical"}
