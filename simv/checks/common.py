"""Helpers shared by the storage checks (C02, C03, C04): deterministic keys and
values from compact JSON specs, so that plans stay small and replayable."""
from __future__ import annotations

LIBPATH = "lib.ukv"


def key_bytes(spec) -> bytes:
    """spec: "abc" (latin-1 text), [prefix, total_len] (prefix padded with 'K') or ["U", text, reps]
    (text repeated, UTF-8 encoded: a key whose length in characters differs from its length in bytes)."""
    if isinstance(spec, str):
        return spec.encode("latin-1")
    if len(spec) == 3 and spec[0] == "U":
        return (spec[1] * spec[2]).encode("utf-8")
    prefix, total = spec
    b = prefix.encode("latin-1")
    if len(b) < total:
        b = b + b"K" * (total - len(b))
    return b


def key_str(spec) -> str:
    return key_bytes(spec).decode("latin-1")


# A payload that looks like a sequence of tiny well-formed UKV blocks (key_len=1,
# record_len=2): if a scanner ever walks into the middle of a value it will happily
# "find" records there.  Used to make leftovers of torn tails dangerous.
_HDRLIKE = b"\x01\x00\x00\x00\x02" + b"qZZ"


def value_bytes(spec) -> bytes:
    """spec: [tag, n] or [tag, n, "hdr"].  Never contains a NUL byte unless kind is "hdr",
    so zero padding is always detectable; every tag yields a distinct byte string."""
    tag, n = spec[0], spec[1]
    kind = spec[2] if len(spec) > 2 else "txt"
    if n == 0:
        return b""
    if kind == "hdr":
        unit = _HDRLIKE + f"{tag}".encode()
    else:
        unit = f"<{tag}|{n}>".encode()
    reps = n // len(unit) + 1
    return (unit * reps)[:n]


def short(b: bytes, n: int = 24) -> str:
    if len(b) <= n:
        return repr(b)
    return f"{b[:n]!r}...({len(b)}B)"
