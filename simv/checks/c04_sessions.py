"""C04 - concurrent library sessions are serialised and survive failing sessions.

2-8 simulated processes (baton-passed threads, each with its own object graph) run
scripts of reading()/writing() sessions on 1-2 libraries through long-lived, fresh and
pickled handles.  The lock logic is the real fasteners code on top of the simulated
fcntl table and virtual clock; the storage is the real molli code on the simulated
disk.  A seeded scheduler picks every interleaving at kernel-call granularity; faults
(user exception, encoder exception, duplicate key at put / at exit flush, EIO / ENOSPC
on the flush or close write, stalls, timeouts) are placed inside sessions.
"""
from __future__ import annotations

import copy
import os
import pickle

import msgpack

from ..core import kernel as K
from ..core.engine import RunResult
from ..core.rng import digest
from ..core.sched import Scheduler
from ..core.seams import storage_seams
from .common import short

ID = "C04"
CHECK = "c04_sessions"
LEVEL = "exploration"
RULE = (
    "A case is one simulated run: 2-8 (a few: 12, thorough tier also 16) simulated processes, each with 1-2 long-lived handles (fresh, or unpickled "
    "joblib-style from a master handle; relative / dotted / absolute spellings of the same path; collection buffer "
    "sizes default(-1), 0, small, large) on 1-2 libraries, each running 1-6 reading()/writing() sessions with "
    "globally unique values; the seeded scheduler (random / sticky / PCT / starve-one / lowest) decides every "
    "interleaving at kernel-call granularity; 0-2 faults per run are placed inside sessions. Oracles: E exclusion "
    "of session bodies, S session-order dict model, D final durability from a fresh process, L lock and descriptor "
    "release at every session end (read off the simulated OS), P bounded progress. distinct_nontrivial counts "
    "distinct digests of the sequence of (pid, lock/open/close/write kernel event) among runs that had at least one "
    "blocked lock attempt or one fired fault."
)
ASSUMPTIONS = [
    "Sessions of one simulated process never overlap (the lock is per process); threads sharing a handle are outside the claim.",
    "Interleaving at kernel-call granularity loses no behaviour: between two kernel calls a process touches only its own objects.",
    "The fcntl layer is SimLockMech (POSIX record-lock semantics: per-process ownership, any close of the lock file by the owner drops the lock); conformance-tested against real fcntl in two real processes.",
    "Process kill is C03's subject and is not injected here.",
    "A failed session's records may or may not persist (also late: molli may keep them queued on the handle) but never partially or altered; a session on a handle that still carries such a queue may itself fail with KeyError.",
]
REAL_VS_STUB = {
    "real": ["molli Collection / UkvCollectionBackend / UKVFile", "fasteners.InterProcessReaderWriterLock (acquire, retry, back-off, timeout, release)",
             "io.BufferedRandom / BufferedReader", "msgpack encoder/decoder", "pickle of handles"],
    "stub": ["fcntl.lockf layer (SimLockMech)", "time.monotonic / sleep (virtual clock)", "raw disk + namespace (SimFS)", "OS processes (baton-passed threads)", "atexit (per simulated process)"],
}
FAULT_PROBES = {"user_exception_in_body": "session_failed_user_exc", "encoder_exception": "session_failed_encoder_exc",
                "duplicate_key": "session_failed_dup_at_put", "io_error_failed_session": "session_failed_io_error", "lock_timeout_expired": "timeout_fired",
                "failed_put_caught_and_continued": "failed_put_caught_session_continues"}
# a small share of the runs is repeated by fresh interpreters started with `python -O` (assert statements stripped)
INTERP_VARIANTS = [{"flags": ["-O"], "runs": {"quick": 400, "thorough": 8000}, "what": "python -O (assert statements stripped from the code under test)"}]
PROBES = ["reader_blocked_by_writer", "writer_blocked", "three_or_more_polling", "timeout_fired", "stale_handle_rescan",
          "session_failed_user_exc", "session_failed_encoder_exc", "session_failed_dup_at_put",
          "session_failed_io_error", "queue_nonempty_after_failed_session", "same_path_two_spellings", "two_libraries",
          "pickled_handle", "create_race", "reader_saw_maybe_record", "molecule_library_payload", "failed_put_caught_session_continues",
          "used_handle_shipped_to_another_process", "shipped_handle_carried_a_write_queue", "session_left_by_a_base_exception", "own_record_read_back_inside_the_writing_session", "master_made_with_overwrite_then_pickled", "name_re_pointed_to_the_other_library"]

# what user code inside a session can end with: ordinary exceptions, and the ones that do not derive from Exception
# (Ctrl-C, sys.exit() in a worker that catches it further up, a cancelled asyncio task) - the process stays alive
_USER_EXC = ["RuntimeError", "RuntimeError", "RuntimeError", "KeyboardInterrupt", "SystemExit", "CancelledError"]
SPELLINGS = ["{n}", "./{n}", "sub/../{n}", "{cwd}/{n}", "ln/{n}", "lnk_{n}", "ln/ln/{n}"]


# ---------------------------------------------------------------------------- value codec (module level: picklable)
class _Poison:
    pass


def enc(v):
    return msgpack.dumps(v)


def dec(b):
    return msgpack.loads(b)


def value(tag, n, payload="dict"):
    # (tags are stored with a constant offset so that every tag has the same encoded length: two records with the same
    #  payload size are then blocks of exactly the same length - the coincidence size-based shortcuts stumble over)
    v = {"t": 1000 + tag, "p": (f"<{tag:04d}>".encode() * (n // 6 + 1))[:n]}
    if payload == "mol":
        v["c"] = ((float(tag % 7), 0.0, 0.0), (0.0, 1.0, 0.0), (0.0, 0.0, float(1 + tag % 3)))
    return v


def to_payload(v, payload, key="m"):
    """What is actually stored: the dict itself (msgpack-encoded Collection) or a real Molecule (MoleculeLibrary)."""
    if payload != "mol":
        return v
    import molli as ml

    m = ml.Molecule(n_atoms=3, name=key)
    for a, e in zip(m.atoms, ("O", "H", "H")):
        a.element = ml.Element[e]
    m.coords[:] = v["c"]
    m.attrib["t"] = v["t"]
    m.attrib["p"] = v["p"]
    return m


def norm(obj, payload):
    """Back to the plain dict the oracle works on."""
    if payload != "mol":
        return obj
    return {"t": obj.attrib.get("t"), "p": obj.attrib.get("p"),
            "c": tuple(tuple(float(x) for x in row) for row in obj.coords)}


def pre_checks(tier):
    from ..conformance import real_fs, real_lock

    return {"conformance_lock": real_lock.run(), "conformance_fs": real_fs.run()}


def budget(tier):
    if tier == "quick":
        return {"runs": 12000, "chunk": 50, "wall_cap": 400.0, "det_sample": 8}
    return {"runs": 1200000, "chunk": 200, "wall_cap": 3300.0, "det_sample": 40}


# ---------------------------------------------------------------------------- plan generation
def gen_plan(r, tier, index):
    nlibs = 1 if r.random() < 0.75 else 2
    nproc = r.choice([2, 2, 3, 3, 3, 4, 4, 5, 6, 8] * 3 + ([12] if tier == "quick" else [12, 12, 16, 16]))
    fault_budget = r.choice([0, 0, 0, 1, 1, 1, 1, 2, 2])
    create_race = r.random() < 0.1
    big = r.choice([1 << 20, 1 << 20, 300])
    procs = []
    tag = 0
    shared_keys = [f"shared{j}" for j in range(3)]
    for p in range(1, nproc + 1):
        nh = 1 if r.random() < 0.7 else 2
        handles = []
        for _ in range(nh):
            lib = r.randrange(nlibs)
            ro = (not create_race) and r.random() < 0.25
            handles.append({
                "lib": lib,
                "spelling": r.randrange(len(SPELLINGS)),
                "readonly": ro,
                "coll_bufsize": r.choice([-1, -1, -1, 0, 40, big]),
                "pickled": (not create_race) and r.random() < 0.35,
            })
        script = []
        for s in range(r.choice([1, 2, 2, 3, 3, 4, 6])):
            h = r.randrange(nh)
            ro = handles[h]["readonly"]
            kind = "r" if ro or r.random() < 0.35 else "w"
            sess = {"h": h, "kind": kind, "catch": r.random() < 0.3, "think": r.choice([0, 0, 0.001, 0.01, 0.05, 0.3]),
                    "timeout": r.choice([None, None, None, None, 0.0, 0.02, 0.15, 1.0]), "ops": []}
            if kind == "w":
                for _ in range(r.choice([1, 1, 2, 3, 4])):
                    tag += 1
                    if r.random() < 0.12:
                        key = r.choice(shared_keys)
                    else:
                        key = f"p{p:02d}s{s}k{tag:04d}"     # fixed width: records with equal payload sizes are equally long blocks
                    n = r.choice([0, 1, 10, 10, 60, 200, 200, 3000, 9000])
                    sess["ops"].append({"op": "put", "k": key, "v": [tag, n]})
                if r.random() < 0.3:
                    sess["ops"].insert(r.randrange(len(sess["ops"]) + 1), {"op": "list"})
                if r.random() < 0.3:
                    # read back, inside the writing session, something this session has put (with a deferring buffer the
                    # collection has to store its queue first)
                    puts_ = [i_ for i_, o_ in enumerate(sess["ops"]) if o_["op"] == "put"]
                    at_ = r.choice(puts_)
                    sess["ops"].insert(r.randrange(at_ + 1, len(sess["ops"]) + 1), {"op": "readback", "k": sess["ops"][at_]["k"]})
            else:
                sess["ops"].append({"op": "read_all"})
                if r.random() < 0.3:
                    sess["ops"].append({"op": "read_all"})
            if r.random() < 0.15:
                sess["ops"].insert(r.randrange(len(sess["ops"]) + 1), {"op": "stall", "d": r.choice([0.001, 0.05, 0.2, 0.5])})
            script.append(sess)
        procs.append({"pid": p, "handles": handles, "script": script})

    # a USED handle travels: process A pickles a handle it has already run sessions on (cached index, end offset, possibly a
    # write queue left by a failed session) and process B carries on with the copy - what joblib does with a library
    # object that was used before it is passed to the workers
    ship_dirty = None
    if nproc >= 2 and not create_race and r.random() < 0.2:
        a, b = r.sample(range(nproc), 2)
        ha = r.randrange(len(procs[a]["handles"]))
        cands = [i for i, hb in enumerate(procs[b]["handles"]) if hb["lib"] == procs[a]["handles"][ha]["lib"]
                 and hb["readonly"] == procs[a]["handles"][ha]["readonly"]]
        if cands:
            procs[a]["ships"] = [{"after": r.randrange(len(procs[a]["script"])), "h": ha, "slot": 0}]
            procs[b]["adopts"] = [{"h": r.choice(cands), "slot": 0}]
            if r.random() < 0.4 and not procs[a]["handles"][ha]["readonly"]:
                # ... and make it likely that the travelling handle carries a write queue: a deferring buffer and an exit
                # flush that fails after the first of several queued items
                ship_dirty = (a, procs[a]["ships"][0]["after"])
                procs[a]["handles"][ha]["coll_bufsize"] = 1 << 20
                sess = procs[a]["script"][ship_dirty[1]]
                sess["h"], sess["kind"], sess["catch"] = ha, "w", False
                sess["ops"] = [o for o in sess["ops"] if o["op"] in ("put", "stall")]
                while sum(o["op"] == "put" for o in sess["ops"]) < 3:
                    tag += 1
                    sess["ops"].append({"op": "put", "k": f"p{procs[a]['pid']:02d}s{ship_dirty[1]}k{tag:04d}", "v": [tag, r.choice([1, 10, 60])]})
    # A directed scenario next to the random ones (size coincidences are what end-offset / file-size shortcuts stumble over):
    # a long-lived handle loses a record in a failing flush-on-close, another process then appends a record of exactly the
    # same length, and the first handle is used again (reading or writing).
    same_size = None
    if (nproc >= 2 and not create_race and not any("ships" in p_ or "adopts" in p_ for p_ in procs)
            and all(h_["lib"] < nlibs for p_ in procs for h_ in p_["handles"]) and r.random() < 0.05):
        a, b = 0, 1
        n_ = r.choice([1, 10, 60, 200])
        libx = procs[a]["handles"][0]["lib"]
        procs[a]["handles"][0].update({"readonly": False, "coll_bufsize": r.choice([-1, 0]), "pickled": False})
        hb = next((i for i, h_ in enumerate(procs[b]["handles"]) if h_["lib"] == libx), None)
        if hb is None:
            procs[b]["handles"][0]["lib"] = libx
            hb = 0
        procs[b]["handles"][hb]["readonly"] = False
        tag += 3
        procs[a]["script"] = [
            {"h": 0, "kind": "w", "catch": False, "think": 0, "timeout": None, "ops": [{"op": "put", "k": f"p{procs[a]['pid']:02d}s0k{tag - 2:04d}", "v": [tag - 2, n_]}]},
            {"h": 0, "kind": r.choice(["r", "w"]), "catch": False, "think": 0.3, "timeout": None, "ops": []},
        ] + procs[a]["script"][:2]
        second = procs[a]["script"][1]
        second["ops"] = [{"op": "read_all"}] if second["kind"] == "r" else [{"op": "put", "k": f"p{procs[a]['pid']:02d}s1k{tag - 1:04d}", "v": [tag - 1, 5]}, {"op": "list"}]
        procs[b]["script"] = [{"h": hb, "kind": "w", "catch": False, "think": 0.1, "timeout": None,
                               "ops": [{"op": "put", "k": f"p{procs[b]['pid']:02d}s0k{tag:04d}", "v": [tag, n_]}]}] + procs[b]["script"][:2]
        same_size = a
    # A third directed scenario (two libraries): a name - the symbolic link cur.ukv - is re-pointed from one library to the
    # other while a process that already used it lives on and then opens the name again.  The handle it gets works on the
    # NEW library and has to lock the new library.
    retarget = False
    if (nlibs == 2 and same_size is None and ship_dirty is None and not create_race and nproc >= 2 and r.random() < 0.15
            and not any("ships" in p_ or "adopts" in p_ for p_ in procs)):
        retarget = True
        pa, pb = procs[0], procs[1]
        cb_ = r.choice([-1, 0])
        pa["handles"] = pa["handles"][:1] + [{"lib": 0, "spelling": "cur", "readonly": False, "coll_bufsize": cb_, "pickled": False},
                                             {"lib": 1, "spelling": "cur", "readonly": False, "coll_bufsize": cb_, "pickled": False, "dynamic": True}]
        pa["handles"][0]["pickled"] = False
        def _w(hidx, pid_, label, stall=None):
            nonlocal tag
            tag += 1
            ops_ = [{"op": "put", "k": f"p{pid_:02d}{label}k{tag:04d}", "v": [tag, r.choice([1, 10, 60])]}]
            if stall:
                ops_.append({"op": "stall", "d": stall})
                tag += 1
                ops_.append({"op": "put", "k": f"p{pid_:02d}{label}k{tag:04d}", "v": [tag, 10]})
            return {"h": hidx, "kind": "w", "catch": False, "think": 0, "timeout": None, "ops": ops_}
        pseudo = {"h": 0, "think": 0, "timeout": None, "ops": [], "catch": False}
        pa["script"] = [_w(1, pa["pid"], "u")] + [dict(pseudo, kind="retarget", to=1), dict(pseudo, kind="newhandle", h=2)] + \
                       [_w(2, pa["pid"], "v", stall=r.choice([0.05, 0.2])), _w(2, pa["pid"], "w", stall=0.05)]
        hb = next((i for i, h_ in enumerate(pb["handles"]) if h_["lib"] == 1 and not h_["readonly"]), None)
        if hb is None:
            pb["handles"][0].update({"lib": 1, "readonly": False})
            hb = 0
        pb["script"] = [dict(_w(hb, pb["pid"], "x", stall=0.02), think=r.choice([0, 0.01, 0.03])) for _ in range(4)]
    # A fourth directed scenario: a put whose block goes to the device in several raw writes (tiny raw buffer) is cut short by
    # a full disk; the session body catches the error and carries on putting.  The session completes: everything it put
    # AFTER the failed put has to be there, exact.
    caught_partial = None
    if (same_size is None and ship_dirty is None and not retarget and not create_race and r.random() < 0.05
            and not any("ships" in p_ or "adopts" in p_ for p_ in procs)):
        pa_ = procs[0]
        h0_ = pa_["handles"][0]
        h0_.update({"readonly": False, "coll_bufsize": r.choice([-1, 0]), "pickled": False})
        ops_ = []
        # ... or TWO puts cut short: a long block first, whose remains reach far past the end of the library, then a short
        # one whose few bytes land inside those remains - header and half a key of the second, the rest of "its" block
        # supplied by the first (found by the thorough tier as a record nobody stored; repaired by a103f5a).
        twice_ = r.random() < 0.5
        for q_ in range(4):
            tag += 1
            n_ = [r.choice([1, 200]), 3000, r.choice([1, 200]), 200][q_] if twice_ else r.choice([200, 200, 3000])
            ops_.append({"op": "put", "k": f"p{pa_['pid']:02d}c0k{tag:04d}", "v": [tag, n_]})
        pa_["script"] = [{"h": 0, "kind": "w", "catch": True, "think": 0, "timeout": None, "ops": ops_}] + pa_["script"][:2]
        caught_partial = pa_["pid"]
    faults = []
    if caught_partial is not None:
        if twice_:
            faults.append({"kind": "enospc", "pid": caught_partial, "op": "write", "nth": 2, "phase": "s0:body", "arg": r.randrange(300, 2500)})
            faults.append({"kind": "enospc", "pid": caught_partial, "op": "write", "nth": r.choice([4, 5, 5]), "phase": "s0:body", "arg": r.randrange(6, 40)})
        else:
            faults.append({"kind": "enospc", "pid": caught_partial, "op": "write", "nth": r.choice([2, 3, 4, 5]), "phase": "s0:body", "arg": r.randrange(7, 150)})
    if same_size is not None:
        # (every attempt of the closing flush fails: a close() that tries twice - once for a tail check, once in the stream's
        # own close - must not turn the lost close into a late one)
        for nth_ in (1, 2, 3):
            faults.append({"kind": "eio", "pid": procs[same_size]["pid"], "op": "write", "nth": nth_, "phase": "s0:exit", "arg": 1})
    wsessions = [(pi, si) for pi, p in enumerate(procs) for si, s in enumerate(p["script"]) if s["kind"] == "w"]
    anysessions = [(pi, si) for pi, p in enumerate(procs) for si, s in enumerate(p["script"])]
    if ship_dirty is not None:
        for nth_ in (1, 2, 3):
            faults.append({"kind": "eio", "pid": procs[ship_dirty[0]]["pid"], "op": "write", "nth": nth_, "phase": f"s{ship_dirty[1]}:exit", "arg": 1})
    for _ in range(fault_budget):
        kind = r.choice(["user_exc", "user_exc", "encoder_exc", "dup_in_session", "io", "io", "io", "reader_exc"])
        if kind == "reader_exc":
            if not anysessions:
                continue
            pi, si = r.choice(anysessions)
            ops = procs[pi]["script"][si]["ops"]
            ops.insert(r.randrange(len(ops) + 1), {"op": "raise", "exc": r.choice(_USER_EXC)})
            continue
        if not wsessions:
            continue
        pi, si = r.choice(wsessions)
        sess = procs[pi]["script"][si]
        ops = sess["ops"]
        if kind == "user_exc":
            ops.insert(r.randrange(len(ops) + 1), {"op": "raise", "exc": r.choice(_USER_EXC)})
        elif kind == "encoder_exc":
            ops.insert(r.randrange(len(ops) + 1), {"op": "put_poison", "k": f"poison{pi}_{si}"})
        elif kind == "dup_in_session":
            puts = [o for o in ops if o["op"] == "put"]
            if puts:
                tag += 1
                ops.append({"op": "put", "k": r.choice(puts)["k"], "v": [tag, 5]})
        else:
            faults.append({"kind": r.choice(["eio", "eio", "enospc"]), "pid": procs[pi]["pid"], "op": "write",
                           "nth": r.choice([1, 1, 2, 3]), "phase": f"s{si}:" + r.choice(["exit", "exit", "body"]),
                           "arg": r.randrange(1, 5000)})
            # A device that fails the closing flush mostly keeps failing (a full disk stays full): the writes that follow
            # in the same exit fail too, so that a close() which flushes more than once still leaves what the first
            # failure left - a lost or torn tail - instead of completing it at the second attempt.
            f_ = faults[-1]
            if f_["phase"].endswith(":exit") and r.random() < 0.6:
                for more_ in (1, 2, 3):
                    faults.append(dict(f_, nth=f_["nth"] + more_, arg=0))
    plan = {
        "check": CHECK, "directed": "lost-close-then-same-size-append" if same_size is not None else ("name-re-pointed-to-the-other-library" if retarget else (("two-puts-cut-short-then-caught" if twice_ else "put-cut-short-then-caught") if caught_partial is not None else None)),
        "master_overwrite": r.random() < 0.2,
        "bufsize": 64 if caught_partial is not None else r.choice([8192, 4096, 4096, 65536, 64]), "payload": r.choice(["dict", "dict", "dict", "mol"]),
        "nlibs": nlibs, "create_race": create_race, "procs": procs, "faults": faults,
        "latency": r.choice([0, 0, 0, 0.0005, 0.004]),
        "sched": {"seed": r.randrange(1 << 30),
                  "strategy": r.choice([{"kind": "random"}, {"kind": "random"}, {"kind": "sticky", "p": 0.85},
                                        {"kind": "pct", "d": r.choice([1, 2, 3]), "span": 400},
                                        {"kind": "starve", "victim": r.randrange(1, nproc + 1)}])},
    }
    return plan


# ---------------------------------------------------------------------------- execution
def _queue(c):
    """Keys still sitting in a handle's write queue, or None where that cannot be read.  Private state of the backend: it
    is used only to make the oracle STRICTER (which later failures on this handle have an explanation).  Where it cannot
    be read (the attribute was renamed, say) the oracle falls back to the loose rule: any later failure on a handle whose
    session failed is explained."""
    b = getattr(c, "_backend", None)
    if b is None or not hasattr(b, "_write_queue"):
        return None
    try:
        return tuple(k_ for (k_, _v) in b._write_queue)
    except Exception:  # noqa: BLE001
        return None


def _libname(i):
    return f"lib{i}.ukv"


_PAYLOAD = ["dict"]   # payload mode of the run in progress (one run at a time per interpreter)


def _mk(path, readonly, cb, overwrite=False):
    from molli.storage import Collection, UkvCollectionBackend

    kw = {"overwrite": True} if overwrite and not readonly else {}
    if _PAYLOAD[0] == "mol":
        import molli as ml

        return ml.MoleculeLibrary(path, readonly=readonly, bufsize=cb, **kw)
    return Collection(path, UkvCollectionBackend, value_encoder=enc, value_decoder=dec, readonly=readonly, bufsize=cb, **kw)


class _Sess:
    __slots__ = ("pid", "idx", "lib", "kind", "hkey", "invoke", "ret", "b0", "b1", "outcome", "exc", "puts", "put_results",
                 "reads", "listings", "fault", "queue_left", "leak", "timeout", "cb", "caught", "inherited", "queue_keys", "shipped_dirty", "readbacks")

    def __init__(self):
        self.invoke = self.ret = self.b0 = self.b1 = None
        self.outcome = None
        self.exc = None
        self.puts = []          # (key, expected_value_dict)
        self.put_results = []   # (key, 'ok' | exception type name)
        self.reads = []         # (mark_index, {key: value})
        self.listings = []      # (mark_index, [keys])
        self.fault = None
        self.queue_left = 0
        self.leak = None
        self.caught = 0
        self.inherited = False
        self.queue_keys = ()
        self.shipped_dirty = False
        self.readbacks = []

    def good_puts(self):
        """puts that returned without raising (in an ok session these are the committed ones)"""
        ok = [r == "ok" for (_k, r) in self.put_results] + [False] * (len(self.puts) - len(self.put_results))
        return [pv for pv, g in zip(self.puts, ok) if g]

    def bad_puts(self):
        ok = [r == "ok" for (_k, r) in self.put_results] + [False] * (len(self.puts) - len(self.put_results))
        return [pv for pv, g in zip(self.puts, ok) if not g]


def run_plan(plan, trace=False):
    try:
        return _run_plan(plan, trace)
    except (K.HarnessError, K.SimCrash):
        raise
    except Exception as e:  # noqa: BLE001 - set-up by pid 0 (library creation, master handles) must not fail
        import traceback

        res = RunResult()
        site = traceback.extract_tb(e.__traceback__)[-1]
        res.violate("setup-raises", f"C04|setup-raises|{type(e).__name__}",
                    f"un-faulted set-up raised {e!r} at {site.filename.split('/')[-1]}:{site.name}")
        res.digest = digest(("exc", repr(e)))
        return res


def _run_plan(plan, trace=False):
    res = RunResult()
    payload = plan.get("payload", "dict")
    _PAYLOAD[0] = payload
    if payload == "mol":
        res.stats["probe:molecule_library_payload"] += 1
    kern = K.Kernel(bufsize=plan["bufsize"])
    kern.max_events = 300000
    lat = plan.get("latency", 0)
    if lat:
        kern.latency = lambda op: lat if op in ("read", "write", "open", "close", "truncate") else 0.0
    marks = []      # global order = list order (only one task runs at a time)
    sessions: list[_Sess] = []
    polling_max = [0]

    def mark(what, s=None, data=None):
        marks.append((kern.seq, kern.cur_pid, what, s, data))
        return len(marks) - 1

    with storage_seams(kern):
        # ---- set-up by pid 0: libraries and master handles
        masters = {}
        if not plan["create_race"]:
            for i in range(plan["nlibs"]):
                m = _mk(K.SimPath(_libname(i)), False, -1)
                masters[i] = m
        else:
            res.stats["probe:create_race"] += 1
        if plan.get("directed") == "name-re-pointed-to-the-other-library":
            kern.symlink("cur.ukv", _libname(0))
        master_blobs = {}

        def master_blob(i, readonly, cb):
            key = (i, readonly, cb)
            if key not in master_blobs:
                # (some masters are made with overwrite=True - "start this library afresh" - while the library is still
                #  empty: that is a property of the moment the master was made, not of its pickled copies)
                m = _mk(K.SimPath(_libname(i)), readonly, cb, overwrite=bool(plan.get("master_overwrite")))
                if plan.get("master_overwrite") and not readonly:
                    res.stats["probe:master_made_with_overwrite_then_pickled"] += 1
                master_blobs[key] = pickle.dumps(m)
            return master_blobs[key]

        for p in plan["procs"]:
            for h in p["handles"]:
                if h["pickled"]:
                    master_blob(h["lib"], h["readonly"], h["coll_bufsize"])
        for f in plan["faults"]:
            kern.faults.append(K.Fault.from_json(f))
        sched = Scheduler(kern, plan["sched"]["seed"], plan["sched"]["strategy"], max_steps=120000, max_time=1500.0)

        def on_step(s):
            n = len(kern.waiting_on)
            if n > polling_max[0]:
                polling_max[0] = n
        sched.on_step = on_step

        mailbox = {}

        def make_proc(p):
            pid = p["pid"]

            def main():
                handles = []
                hcb = [h["coll_bufsize"] for h in p["handles"]]
                inherited = set()
                shipped_dirty = set()     # handles of this process whose copy left with a non-empty write queue
                for h in p["handles"]:
                    if h.get("dynamic"):
                        handles.append(None)       # opened later, by the script
                        continue
                    if h["spelling"] == "cur":
                        handles.append(_mk(K.SimPath("cur.ukv"), h["readonly"], h["coll_bufsize"]))
                        continue
                    spelled = SPELLINGS[h["spelling"]].format(n=_libname(h["lib"]), cwd=kern.root)
                    if h["pickled"]:
                        c = pickle.loads(master_blobs[(h["lib"], h["readonly"], h["coll_bufsize"])])
                    else:
                        c = _mk(K.SimPath(spelled), h["readonly"], h["coll_bufsize"])
                    handles.append(c)
                for si, sp in enumerate(p["script"]):
                    for ad in p.get("adopts", ()):
                        got = mailbox.pop(ad["slot"], None)
                        if got is not None:
                            blob, cb = got
                            handles[ad["h"]] = pickle.loads(blob)
                            hcb[ad["h"]] = cb
                            res.stats["probe:used_handle_shipped_to_another_process"] += 1
                            if _queue(handles[ad["h"]]) is None or _queue(handles[ad["h"]]):
                                inherited.add(ad["h"])
                                res.stats["probe:shipped_handle_carried_a_write_queue"] += 1
                    if sp["kind"] == "retarget":
                        kern.symlink("cur.ukv", _libname(sp["to"]))
                        res.stats["probe:name_re_pointed_to_the_other_library"] += 1
                        continue
                    if sp["kind"] == "newhandle":
                        hh = p["handles"][sp["h"]]
                        handles[sp["h"]] = _mk(K.SimPath("cur.ukv"), hh["readonly"], hh["coll_bufsize"])
                        if not kern.norm("cur.ukv").endswith(_libname(hh["lib"])):
                            raise K.HarnessError("retarget scenario: cur.ukv does not resolve to the library the plan expects")
                        continue
                    c = handles[sp["h"]]
                    S = _Sess()
                    S.inherited = sp["h"] in inherited
                    S.pid, S.idx, S.kind = pid, si, sp["kind"]
                    S.lib = p["handles"][sp["h"]]["lib"]
                    S.hkey = (pid, sp["h"])
                    S.timeout = sp["timeout"]
                    S.cb = hcb[sp["h"]]
                    sessions.append(S)
                    if sp["think"]:
                        kern.sleep(sp["think"])
                    S.invoke = mark("invoke", S)
                    kern.set_phase(f"s{si}:enter")
                    try:
                        cm = c.writing(timeout=sp["timeout"]) if sp["kind"] == "w" else c.reading(timeout=sp["timeout"])
                        with cm:
                            kern.set_phase(f"s{si}:body")
                            S.b0 = mark("body-begin", S)
                            try:
                                _body(c, sp, S)
                            finally:
                                S.b1 = mark("body-end", S)
                                kern.set_phase(f"s{si}:exit")
                        S.outcome = "ok"
                    except TimeoutError as e:
                        S.outcome = "timeout"
                        S.exc = e
                    except K.SimCrash:
                        raise
                    except Exception as e:  # noqa: BLE001 - a session may fail; the oracle decides whether it may
                        S.outcome = "exc"
                        S.exc = e
                    except BaseException as e:  # noqa: BLE001 - caught further up by the (simulated) application: the process lives on
                        if type(e).__name__ not in ("KeyboardInterrupt", "SystemExit", "CancelledError"):
                            raise
                        S.outcome = "exc"
                        S.exc = e
                    kern.set_phase(None)
                    S.queue_keys = _queue(c)
                    if S.queue_keys is None:
                        # unknown: after a failed session assume something may have stayed behind
                        S.queue_left = 1 if S.outcome == "exc" else 0
                    else:
                        S.queue_left = len(S.queue_keys)
                    S.shipped_dirty = sp["h"] in shipped_dirty
                    # L: read off the simulated OS what this process still holds
                    # (a descriptor on the LOCK file without a lock - fasteners keeps one after a timed-out
                    #  acquire - is neither a held lock nor "the file": not part of the statement)
                    lk = kern.locks_of(pid)
                    fds = [(kern.canon(f.path), f.kind) for f in kern.fds_of(pid, kind="file")]
                    if lk or fds:
                        S.leak = ([(kern.canon(a), b) for a, b in lk], fds)
                    S.ret = mark("return", S, S.outcome)
                    for sh in p.get("ships", ()):
                        if sh["after"] == si:
                            mailbox[sh["slot"]] = (pickle.dumps(handles[sh["h"]]), hcb[sh["h"]])
                            if _queue(handles[sh["h"]]) is None or _queue(handles[sh["h"]]):
                                shipped_dirty.add(sh["h"])
            return main

        def _body(c, sp, S):
            for op in sp["ops"]:
                o = op["op"]
                if o == "put":
                    v = value(*op["v"], payload)
                    S.puts.append((op["k"], v))
                    try:
                        c[op["k"]] = to_payload(v, payload, op["k"])
                    except K.SimCrash:
                        raise
                    except Exception as e:  # noqa: BLE001
                        S.put_results.append((op["k"], type(e).__name__))
                        if not sp.get("catch") or S.cb > 0:
                            # (with a deferring buffer an exception raised by put() may belong to an EARLIER queued item;
                            #  which puts of such a session count as successful is not defined -> never carried on)
                            raise
                        # the caller catches the failed put and carries on with the session
                        S.caught += 1
                        continue
                    S.put_results.append((op["k"], "ok"))
                elif o == "put_poison":
                    S.fault = "encoder_exc"
                    bad = {"t": -1, "p": _Poison()}
                    if payload == "mol":
                        bad = to_payload(value(1, 1, payload), payload, op["k"])
                        bad.attrib["p"] = _Poison()      # the REAL molecule encoder (msgpack) rejects this attribute
                    c[op["k"]] = bad
                elif o == "raise":
                    S.fault = S.fault or "user_exc"
                    kind_ = op.get("exc", "RuntimeError")
                    if kind_ != "RuntimeError":
                        res.stats["probe:session_left_by_a_base_exception"] += 1
                    if kind_ == "KeyboardInterrupt":
                        raise KeyboardInterrupt()
                    if kind_ == "SystemExit":
                        raise SystemExit(3)
                    if kind_ == "CancelledError":
                        import asyncio

                        raise asyncio.CancelledError()
                    raise RuntimeError("injected user exception")
                elif o == "stall":
                    kern.sleep(op["d"])
                elif o == "readback":
                    ok_keys = {k_ for (k_, r_) in S.put_results if r_ == "ok"}
                    if op["k"] in ok_keys and not S.caught:
                        want_ = next(v_ for (k_, v_) in S.puts if k_ == op["k"])
                        got_ = norm(c[op["k"]], payload)
                        res.stats["probe:own_record_read_back_inside_the_writing_session"] += 1
                        S.readbacks.append((op["k"], got_ == want_ or got_))
                elif o == "list":
                    S.listings.append((mark("list", S), sorted(c.keys())))
                elif o == "read_all":
                    ks = sorted(c.keys())
                    i = mark("list", S)
                    S.listings.append((i, ks))
                    vals = {}
                    for k in ks:
                        vals[k] = norm(c[k], payload)
                    S.reads.append((i, vals))
                    S.listings.append((mark("list", S), sorted(c.keys())))

        for p in plan["procs"]:
            sched.spawn(p["pid"], make_proc(p))
        limit_hit = False
        try:
            sched.run()
        except K.SimLimit:
            limit_hit = True
            sched._finish()

        fired = [f for f in kern.faults if f.fired]
        for f in kern.faults:
            res.stats[("fault_fired:" if f.fired else "fault_configured_not_fired:") + f.kind] += 1
        # attribute fired kernel faults to sessions (by pid and phase label)
        for f in fired:
            si = int(f.phase.split(":")[0][1:])
            for S in sessions:
                if S.pid == f.pid and S.idx == si:
                    S.fault = S.fault or f"io_{f.kind}@{f.phase.split(':')[1]}"

        # seam liveness: a refactoring that reaches the real file system or the real fcntl around the seams
        # would make this simulation vacuous
        if any(S.b0 is not None for S in sessions) and (kern.counters["seam:open"] == 0 or kern.counters["seam:trylock"] == 0):
            raise K.HarnessError(f"SEAM-LOST C04: open={kern.counters['seam:open']} trylock={kern.counters['seam:trylock']}")
        if any(not K.REAL_ISLINK(os.path.join(os.getcwd(), f)) for f in K.REAL_LISTDIR(os.getcwd())):
            raise K.HarnessError(f"SEAM-LOST C04: a real file appeared in the sandbox directory: {K.REAL_LISTDIR(os.getcwd())}")
        _oracles(plan, kern, sched, sessions, marks, res, limit_hit)

        # D: final durability, read by a fresh process
        if not res.violations or all(v["clause"].startswith("P") for v in res.violations):
            pass
        final_images = {i: kern.image(_libname(i)) for i in range(plan["nlibs"]) if kern.norm(_libname(i)) in kern.files}
    _durability(plan, final_images, sessions, res)
    _PAYLOAD[0] = "dict"

    # ---- stats / probes / digest
    c = kern.counters
    if c["trylock_blocked_r"]:
        res.stats["probe:reader_blocked_by_writer"] += 1
    if c["trylock_blocked_w"]:
        res.stats["probe:writer_blocked"] += 1
    if polling_max[0] >= 3:
        res.stats["probe:three_or_more_polling"] += 1
    if plan["nlibs"] > 1:
        res.stats["probe:two_libraries"] += 1
    spell = {}
    for p in plan["procs"]:
        for h in p["handles"]:
            spell.setdefault(h["lib"], set()).add(h["spelling"] if not h["pickled"] else 0)
            if h["pickled"]:
                res.stats["probe:pickled_handle"] += 1
    if any(len(v) > 1 for v in spell.values()):
        res.stats["probe:same_path_two_spellings"] += 1
    for S in sessions:
        if S.caught:
            res.stats["probe:failed_put_caught_session_continues"] += 1
        if S.outcome == "timeout":
            res.stats["probe:timeout_fired"] += 1
        if S.outcome == "exc":
            cls = _fail_class(S)
            res.stats["probe:session_failed_" + {"user_exc": "user_exc", "encoder_exc": "encoder_exc", "dup@put": "dup_at_put",
                                                  "dup@flush": "dup_at_flush"}.get(cls, "io_error" if cls.startswith("io_") else "other")] += 1
            if S.queue_left:
                res.stats["probe:queue_nonempty_after_failed_session"] += 1
    per_handle = {}
    for S in sessions:
        if S.b0 is not None:
            per_handle[S.hkey] = per_handle.get(S.hkey, 0) + 1
    if any(v > 1 for v in per_handle.values()):
        res.stats["probe:stale_handle_rescan"] += 1
    for k, v in c.items():
        if k in ("open", "read", "write", "close", "trylock", "unlock", "seek_end", "stat", "lk_open", "sleep", "truncate"):
            res.stats["ev:" + k] += v
    res.stats["sessions"] += len(sessions)
    res.sim_seconds = kern.now
    nontrivial = c["trylock_blocked_r"] + c["trylock_blocked_w"] > 0 or bool(fired) or any(S.outcome != "ok" for S in sessions)
    if nontrivial:
        res.keys.append(digest([(e[1], e[2], e[3]) for e in kern.log if e[2] in ("trylock", "unlock", "open", "close", "write", "lk_open")]))
    res.digest = digest(([e for e in kern.log], [(m[0], m[1], m[2], m[4]) for m in marks],
                         [(v["signature"], v["detail"]) for v in res.violations], sched.choices, round(kern.now, 9)))
    res.sample = {"procs": len(plan["procs"]), "sessions": [(S.pid, S.idx, S.kind, S.outcome) for S in sessions][:12],
                  "faults": plan["faults"], "strategy": plan["sched"]["strategy"], "steps": sched.steps,
                  "sim_seconds": round(kern.now, 4), "blocked_trylocks": c["trylock_blocked_r"] + c["trylock_blocked_w"]}
    if trace:
        res.trace = [f"schedule choices ({len(sched.choices)}): {sched.choices[:200]}"]
        res.trace += [f"mark#{i} seq={m[0]} pid={m[1]} {m[2]} sess={(m[3].pid, m[3].idx, m[3].kind) if m[3] else None} {m[4] if m[4] is not None else ''}"
                      for i, m in enumerate(marks)]
        res.trace += [f"kernel {e}" for e in kern.log[-120:]]
        for v in res.violations[:6]:
            res.trace.append(f"VIOLATED {v['clause']}: {v['detail']}")
    return res


def _fail_class(S):
    if S.outcome == "timeout":
        return "timeout"
    if S.outcome != "exc":
        return "ok"
    if S.fault in ("user_exc", "encoder_exc") and not isinstance(S.exc, (KeyError, OSError)):
        return S.fault
    if isinstance(S.exc, KeyError):
        if S.put_results and S.put_results[-1][1] == "KeyError":
            return "dup@put"
        return "dup@flush"
    if isinstance(S.exc, OSError):
        return S.fault if (S.fault or "").startswith("io_") else "io_error"
    return S.fault or type(S.exc).__name__


def _oracles(plan, kern, sched, sessions, marks, res, limit_hit):
    nlibs = plan["nlibs"]
    # ---------------- L: release at every session end
    for S in sessions:
        if S.leak is not None:
            cls = _fail_class(S)
            res.violate("L-lock-or-descriptor-not-released",
                        f"C04|L-leak|session-ended={cls}|kind={S.kind}",
                        f"after session (pid {S.pid}, #{S.idx}, {S.kind}, outcome={S.outcome} {S.exc!r}) the process still holds "
                        f"locks={S.leak[0]} descriptors={S.leak[1]}")
            break
    # ---------------- P: progress
    if sched.cap is not None or limit_hit:
        holders = {kern.canon(p): dict(h) for p, h in kern.locks.items() if h}
        unfinished = sorted(t.pid for t in sched.tasks.values() if not t.crashed and t.exc is None and t.result is None) if False else None
        failed = [(S.pid, S.idx, _fail_class(S)) for S in sessions if S.outcome in ("exc",)]
        cls = sorted({f[2] for f in failed}) or ["none"]
        res.violate("P-no-progress",
                    f"C04|P-no-progress|after={'+'.join(cls)}",
                    f"run hit the {'kernel-event' if limit_hit else sched.cap} cap at t={kern.now:.3f}s steps={sched.steps}: "
                    f"lock table at the end={holders}; waiting={ {p: kern.canon(l) for p, l in sorted(kern.waiting_on.items())} }; failed sessions={failed}")
    else:
        bound = 1.0
        nsess = 0
        for p in plan["procs"]:
            for s in p["script"]:
                nsess += 1
                bound += s["think"] + (s["timeout"] or 0) + sum(o.get("d", 0) for o in s["ops"])
        # (2 s of slack per session: the statement promises progress, not a polling interval - an implementation that polls the
        #  lock every second instead of every 0.1 s keeps every clause)
        bound += 2.0 * (nsess + 1)
        bound += plan.get("latency", 0) * (kern.counters["read"] + kern.counters["write"] + kern.counters["open"] + kern.counters["close"] + kern.counters["truncate"])
        if kern.now > bound:
            res.violate("P-slow", "C04|P-slow", f"run finished at t={kern.now:.3f}s, later than the plan-derived bound {bound:.3f}s")
    for t in sched.tasks.values():
        if t.exc is not None:
            res.violate("H-process-died-outside-a-session", f"C04|H-proc-exc|{type(t.exc).__name__}",
                        f"pid {t.pid} raised outside a session: {t.exc!r}")
    # ---------------- E: exclusion of bodies
    for lib in range(nlibs):
        bodies = sorted((S.b0, S.b1, S) for S in sessions if S.lib == lib and S.b0 is not None and S.b1 is not None)
        for i, (a0, a1, A) in enumerate(bodies):
            for (b0, b1, B) in bodies[i + 1:]:
                if b0 > a1:
                    break
                if A.pid == B.pid:
                    continue
                if A.kind == "w" or B.kind == "w":
                    res.violate("E-writer-overlaps-another-session",
                                f"C04|E-overlap|{A.kind}{B.kind}",
                                f"bodies overlap on lib{lib}: pid {A.pid} #{A.idx} ({A.kind}) marks {a0}..{a1} and pid {B.pid} #{B.idx} ({B.kind}) marks {b0}..{b1}")
                    return
    # ---------------- S: session-order model per library
    for lib in range(nlibs):
        committed = {}   # key -> value
        maybe = {}       # key -> set of acceptable values (as msgpack bytes) from failed sessions
        dirty_handles = {}      # handle -> keys still sitting in its write queue after a failed session
        order = sorted((S for S in sessions if S.lib == lib and S.invoke is not None), key=lambda S: (S.b0 if S.b0 is not None else S.invoke))
        for S in order:
            if S.outcome == "timeout":
                if S.timeout is None:
                    res.violate("S-timeout-without-timeout", "C04|S-spurious-timeout|infinite", f"pid {S.pid} #{S.idx} raised TimeoutError with timeout=None")
                    return
                conflict = False
                for O in sessions:
                    if O is S or O.lib != lib or O.pid == S.pid or O.invoke is None:
                        continue
                    # (two readers are not REQUIRED to share: an implementation that serialises readers as well keeps every
                    #  clause of the statement, so another reader's overlap counts as a possible reason for a timeout too)
                    o_end = O.ret if O.ret is not None else len(marks)
                    if O.invoke <= S.ret and o_end >= S.invoke:
                        conflict = True
                        break
                if not conflict:
                    # a leaked lock of an earlier session is reported by L; a timeout against nobody is spurious
                    res.violate("S-spurious-timeout", "C04|S-spurious-timeout|no-conflicting-session",
                                f"pid {S.pid} #{S.idx} ({S.kind}, timeout={S.timeout}) timed out although no conflicting session of another process overlapped its wait")
                    return
                continue
            if S.b0 is None:
                # failed before the body began
                if S.outcome == "exc":
                    # (a writing session on a handle that carries a write queue may store that queue when it begins rather
                    #  than when it ends: where a carried key can collide, failing before the body is as legitimate as failing after it)
                    carried0 = dirty_handles.get(S.hkey, ())
                    if S.kind == "w" and (S.inherited or S.shipped_dirty or carried0 is None
                                          or any(k_ in committed or k_.startswith("shared") for k_ in carried0)):
                        if S.queue_left:
                            dirty_handles[S.hkey] = S.queue_keys
                        else:
                            dirty_handles.pop(S.hkey, None)
                        continue
                    res.violate("S-session-could-not-begin", f"C04|S-begin-failed|{type(S.exc).__name__}",
                                f"pid {S.pid} #{S.idx} ({S.kind}) failed before its body: {S.exc!r}")
                    return
                continue
            # listings and reads
            first = True
            for (mi, ks) in S.listings:
                kset = set(ks)
                own = {k for k, _ in S.puts} if S.kind == "w" else set()
                missing = [k for k in committed if k not in kset]
                if missing:
                    res.violate("S-committed-record-not-listed", f"C04|S-lost|listing|{S.kind}",
                                f"pid {S.pid} #{S.idx} ({S.kind}) listing at mark {mi} lacks committed keys {missing[:5]}")
                    return
                for k in ks:
                    if k in committed or k in own:
                        continue
                    if k in maybe:
                        continue
                    res.violate("S-foreign-key-listed", f"C04|S-foreign-key|{S.kind}",
                                f"pid {S.pid} #{S.idx} ({S.kind}) lists key {k!r} that no session put (mark {mi})")
                    return
                first = False
            if S.kind == "r" and len(S.listings) >= 2:
                base = S.listings[0][1]
                for (mi, ks) in S.listings[1:]:
                    if ks != base:
                        res.violate("S-listing-unstable-in-read-session", "C04|S-unstable-listing",
                                    f"pid {S.pid} #{S.idx} reader listing changed during the session: {base} -> {ks}")
                        return
            for (mi, vals) in S.reads:
                for k, got in vals.items():
                    if k in committed:
                        if got != committed[k]:
                            res.violate("S-committed-record-altered", f"C04|S-altered|{S.kind}",
                                        f"pid {S.pid} #{S.idx} read {k!r} = {_sv(got)} expected {_sv(committed[k])}")
                            return
                    elif k in maybe:
                        if enc(got) not in maybe[k]:
                            res.violate("S-partial-or-wrong-record-of-failed-session", f"C04|S-maybe-wrong|{S.kind}",
                                        f"pid {S.pid} #{S.idx} read {k!r} = {_sv(got)} which is not the value any (failed) session put there")
                            return
                        res.stats["probe:reader_saw_maybe_record"] += 1
                        committed[k] = got     # now observed durable: must stay
                    # own keys of a writer session are checked by C02
            # writer effects
            if S.kind == "w":
                for (k_, same_) in S.readbacks:
                    if same_ is not True and k_ not in committed and k_ not in maybe:
                        res.violate("S-own-record-read-back-wrong", "C04|S-readback-wrong|w",
                                    f"pid {S.pid} #{S.idx} (w) put {k_!r} and read back {_sv(same_)} inside the same session")
                        return
                cls = _fail_class(S)
                # A handle that carries a write queue over from a failed session stores those items first.  That can only
                # fail where a carried key can collide: a key somebody else may have stored (the shared keys, or one already
                # observed as stored), or a queue that exists twice because the handle was pickled with it.
                carried = dirty_handles.get(S.hkey, ())
                explained = (S.fault is not None or S.inherited or S.shipped_dirty
                             or carried is None      # (the queue could not be inspected: loose rule)
                             or any(k_ in committed or k_.startswith("shared") for k_ in carried))
                seen_in_sess = set()
                for (k, v) in S.puts:
                    dup = k in committed or k in maybe or k in seen_in_sess
                    seen_in_sess.add(k)
                    if dup:
                        explained = True
                if S.caught and not explained:
                    bad = [r for r in S.put_results if r[1] != "ok"]
                    res.violate("S-put-failed-without-cause", f"C04|S-unexplained-put-failure|{bad[0][1] if bad else '?'}",
                                f"pid {S.pid} #{S.idx} (w): put results {S.put_results} although no fault was injected and no key conflicted")
                    return
                if S.outcome == "exc" and not explained:
                    res.violate("S-session-failed-without-cause", f"C04|S-unexplained-failure|{type(S.exc).__name__}",
                                f"pid {S.pid} #{S.idx} (w) failed with {S.exc!r} although no fault was injected and no key conflicted")
                    return
                if S.outcome == "ok":
                    seen = set()
                    for (k, v) in S.bad_puts():
                        if k not in committed:
                            maybe.setdefault(k, set()).add(enc(v))
                    for (k, v) in S.good_puts():
                        if k in committed and committed[k] != v:
                            res.violate("S-duplicate-put-accepted", "C04|S-dup-accepted",
                                        f"pid {S.pid} #{S.idx} completed although it put existing key {k!r}")
                            return
                        if k in seen:
                            res.violate("S-duplicate-put-accepted", "C04|S-dup-accepted",
                                        f"pid {S.pid} #{S.idx} completed although it put key {k!r} twice")
                            return
                        seen.add(k)
                        if k in maybe and enc(v) not in maybe[k]:
                            # an unobserved record of a failed session and ours: whichever is on disk must be one of them
                            maybe[k].add(enc(v))
                            continue
                        committed[k] = v
                        maybe.pop(k, None) if k in maybe and maybe[k] == {enc(v)} else None
                else:
                    for (k, v) in S.puts:
                        if k in committed:
                            continue
                        maybe.setdefault(k, set()).add(enc(v))
                if S.queue_left:
                    dirty_handles[S.hkey] = S.queue_keys
                else:
                    dirty_handles.pop(S.hkey, None)
            elif S.outcome == "exc" and S.fault is None:
                res.violate("S-read-session-failed-without-cause", f"C04|S-unexplained-read-failure|{type(S.exc).__name__}",
                            f"pid {S.pid} #{S.idx} (r) failed with {S.exc!r} although no fault was injected")
                return


def _sv(v):
    try:
        return f"{{t:{v.get('t')}, p:{short(v.get('p'))}}}"
    except Exception:  # noqa: BLE001
        return short(repr(v).encode())


def _durability(plan, final_images, sessions, res):
    """D: after all processes ended a fresh process reads every record of every completed writer session."""
    if any(v["clause"].startswith(("E-", "L-", "P-no")) for v in res.violations):
        return  # the run is already condemned; final state of a wedged run says nothing new
    for lib, img in final_images.items():
        kern = K.Kernel(bufsize=8192)
        kern.keep_log = False
        kern.files[kern.norm(_libname(lib))] = bytearray(img)
        with storage_seams(kern):
            try:
                c = _mk(K.SimPath(_libname(lib)), True, -1)
                with c.reading():
                    got = {k: norm(c[k], plan.get("payload", "dict")) for k in sorted(c.keys())}
            except Exception as e:  # noqa: BLE001
                res.violate("D-final-library-unreadable", f"C04|D-unreadable|{type(e).__name__}", f"fresh process cannot read lib{lib}: {e!r}")
                return
        committed, maybe, required = {}, {}, set()
        for S in sorted((S for S in sessions if S.lib == lib and S.kind == "w" and S.b0 is not None), key=lambda S: S.b0):
            good = S.good_puts() if S.outcome == "ok" else []
            for (k, v) in S.puts:
                if any(k == gk and v is gv for gk, gv in good):
                    if k in committed or (k in maybe):
                        maybe.setdefault(k, set()).add(enc(v))
                        required.add(k)
                    else:
                        committed[k] = v
                else:
                    if k not in committed:
                        maybe.setdefault(k, set()).add(enc(v))
        for k in sorted(required):
            if k not in got:
                res.violate("D-record-of-completed-session-lost", "C04|D-lost", f"lib{lib}: key {k!r} of a completed writing session is missing at the end")
                return
        for k, v in committed.items():
            if k not in got:
                res.violate("D-record-of-completed-session-lost", "C04|D-lost", f"lib{lib}: key {k!r} of a completed writing session is missing at the end")
                return
            if got[k] != v and enc(got[k]) not in maybe.get(k, ()):
                res.violate("D-record-of-completed-session-altered", "C04|D-altered", f"lib{lib}: key {k!r} = {_sv(got[k])} expected {_sv(v)}")
                return
        for k, g in got.items():
            if k in committed:
                continue
            if k not in maybe or enc(g) not in maybe[k]:
                res.violate("D-partial-or-foreign-record-at-end", "C04|D-foreign", f"lib{lib}: key {k!r} = {_sv(g)} is not a complete record of any session")
                return


# ---------------------------------------------------------------------------- shrinking
def shrink_candidates(plan):
    procs = plan["procs"]
    if len(procs) > 1:
        for i in range(len(procs)):
            p = copy.deepcopy(plan)
            gone = p["procs"].pop(i)["pid"]
            p["faults"] = [f for f in p["faults"] if f["pid"] != gone]
            yield p
    for i, pr in enumerate(procs):
        for j in range(len(pr["script"])):
            if len(pr["script"]) == 1:
                continue
            p = copy.deepcopy(plan)
            del p["procs"][i]["script"][j]
            nf = []
            for f in p["faults"]:
                if f["pid"] == pr["pid"]:
                    si = int(f["phase"].split(":")[0][1:])
                    if si == j:
                        continue
                    if si > j:
                        f = dict(f)
                        f["phase"] = f"s{si - 1}:" + f["phase"].split(":")[1]
                nf.append(f)
            p["faults"] = nf
            yield p
    for i, pr in enumerate(procs):
        for j, s in enumerate(pr["script"]):
            for k in range(len(s["ops"])):
                if len(s["ops"]) == 1:
                    continue
                p = copy.deepcopy(plan)
                del p["procs"][i]["script"][j]["ops"][k]
                yield p
    for i in range(len(plan["faults"])):
        p = copy.deepcopy(plan)
        del p["faults"][i]
        yield p
    if any("ships" in pr or "adopts" in pr for pr in procs):
        p = copy.deepcopy(plan)
        for pr in p["procs"]:
            pr.pop("ships", None)
            pr.pop("adopts", None)
        yield p
    if plan["sched"]["strategy"].get("kind") != "lowest":
        p = copy.deepcopy(plan)
        p["sched"]["strategy"] = {"kind": "lowest"}
        yield p
    if plan.get("latency"):
        p = copy.deepcopy(plan)
        p["latency"] = 0
        yield p
    for i, pr in enumerate(procs):
        for j, s in enumerate(pr["script"]):
            if s["think"]:
                p = copy.deepcopy(plan)
                p["procs"][i]["script"][j]["think"] = 0
                yield p
            if s["timeout"] is not None:
                p = copy.deepcopy(plan)
                p["procs"][i]["script"][j]["timeout"] = None
                yield p
            for k, o in enumerate(s["ops"]):
                if o["op"] == "put" and o["v"][1] > 1:
                    p = copy.deepcopy(plan)
                    p["procs"][i]["script"][j]["ops"][k]["v"][1] = 1
                    yield p
        for hidx, h in enumerate(pr["handles"]):
            if h["pickled"]:
                p = copy.deepcopy(plan)
                p["procs"][i]["handles"][hidx]["pickled"] = False
                yield p
            if h["spelling"]:
                p = copy.deepcopy(plan)
                p["procs"][i]["handles"][hidx]["spelling"] = 0
                yield p
    if plan["bufsize"] != 8192:
        p = copy.deepcopy(plan)
        p["bufsize"] = 8192
        yield p
