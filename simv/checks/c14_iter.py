"""C14 - a conformer ensemble stays rectangular and its conformers are live views.

The schedule-dependent clause ("iterating an ensemble - also nested or concurrently
with another iteration - visits each conformer exactly once in order") is decided by a
seeded scheduler that interleaves 1-3 cooperative iterator tasks (plain / nested / zip /
abandoned-then-restarted) and an optional mutator task at next() granularity.  The
other clauses (rectangular arrays, live row views, dump, serialise) carry no schedule;
they are evaluated as invariants after every step of the same runs.
"""
from __future__ import annotations

import copy
import re
import random

import numpy as np

from ..core.engine import RunResult
from ..core.rng import digest

ID = "C14"
CHECK = "c14_iter"
LEVEL = "exploration"
RULE = (
    "A case is one history: an ensemble is constructed (from a molecule, a list of molecules, another ensemble, or atoms + "
    "n_conformers; 1-8 atoms, 0-6 conformers), then 2-7 phases follow. A shape-changing phase applies one of append / extend(list) / "
    "extend(ensemble / generator / iterator / tuple) / refused append or extend / copy-construct / rebuild from its own conformers / slice / "
    "store-and-reload (the history continues on the loaded ensemble, which is written through) / conformers taken from a temporary copy, "
    "with no iteration in flight. An iteration phase runs "
    "1-3 iterator tasks (plain, nested, zip(ens, ens), abandoned-then-restarted) and optionally a mutator task (scale, translate, rotate, "
    "write through ens[i].coords / partial charges, relabel, dump a conformer, dump the whole ensemble as mol2/xyz and read it back, serialise + deserialise) under a seeded interleaving of their next()/operation steps. "
    "Every iterator must see conformer ids 0..n-1 in order; after every step the arrays must be (nc,na,3)/(nc,na)/(nc,) and equal to a "
    "numpy model. distinct_nontrivial counts distinct (task shapes, interleaving) digests of iteration phases with >= 2 tasks or a nested/zip shape."
)
ASSUMPTIONS = [
    "Only the iteration clause is schedule-dependent; rectangularity / live-view / dump / serialise clauses are checked as invariants in the same runs (no fault kind applies to C14).",
    "Shape-changing operations are not scheduled while an iteration is in flight (what such an iteration should visit is not defined by the statement).",
    "Tasks are cooperative (interleaved between next() calls); pre-emption inside __next__ (threads) is outside the claim.",
    "Partial charges of appended / extended conformers are only required to keep the arrays rectangular; coordinates must be the ones given.",
]
REAL_VS_STUB = {"real": ["molli.chem.ensemble.ConformerEnsemble / Conformer", "_serialize_ens_v2/_deserialize_ens_v2 + msgpack", "dumps_mol2/dumps_xyz"],
                "stub": ["caller tasks (generators stepped by the seeded scheduler)"]}
# a small share of the runs is repeated by fresh interpreters started with `python -O` (assert statements stripped)
INTERP_VARIANTS = [{"flags": ["-O"], "runs": {"quick": 2000, "thorough": 30000}, "what": "python -O (assert statements stripped from the code under test)"}]
PROBES = ["iter_plain", "iter_nested", "iter_zip", "iter_restart", "two_or_more_tasks_interleaved", "mutator_between_nexts", "append", "extend_list",
          "extend_ens", "extend_oneshot_iterable", "held_view_checked_after_mutation", "refused_append_or_extend", "atom_relabelled_between_stores", "copy_construct", "rebuild_from_conformers", "slice", "write_through_conformer", "serialise_roundtrip", "conformer_dump",
          "empty_ensemble_iterated", "history_continues_on_reloaded_ensemble", "conformers_of_a_temporary_ensemble", "ensemble_dump_roundtrip", "own_conformers_appended", "per_conformer_rotation", "refused_rotation", "iter_legacy_next", "extend_mixed_kinds", "weights_assigned"]

TEMPLATES = {
    "neon": (["Ne"], []),
    "hcl": (["H", "Cl"], [(0, 1)]),
    "water": (["O", "H", "H"], [(0, 1), (0, 2)]),
    "ethane": (["C", "C", "H", "H", "H", "H", "H", "H"], [(0, 1), (0, 2), (0, 3), (0, 4), (1, 5), (1, 6), (1, 7)]),
}


def budget(tier):
    if tier == "quick":
        return {"runs": 100000, "chunk": 400, "wall_cap": 400.0, "det_sample": 8}
    return {"runs": 4000000, "chunk": 800, "wall_cap": 3300.0, "det_sample": 40}


def gen_plan(r, tier, index):
    tmpl = r.choice(sorted(TEMPLATES))
    base = {"kind": r.choice(["mol", "list", "ens", "atoms"]), "tmpl": tmpl, "n_conf": r.choice([0, 1, 1, 2, 3, 4, 6]), "cseed": r.randrange(1 << 30)}
    if base["kind"] == "mol":
        base["n_conf"] = r.choice([0, 1, 1, 2, 3])
    if base["kind"] == "list" and base["n_conf"] == 0:
        base["n_conf"] = 1
    phases = []
    for _ in range(r.choice([2, 3, 3, 4, 5, 7])):
        if r.random() < 0.45:
            phases.append({"type": "op", "op": r.choice(["append", "append", "extend_list", "extend_ens", "extend_gen", "extend_iter", "extend_tuple", "copy", "rebuild", "slice", "append_bad", "extend_bad", "reload", "reload", "temp_views", "append_self", "extend_self", "extend_mixed"]),
                           "n": r.choice([1, 1, 2, 3]), "cseed": r.randrange(1 << 30)})
        else:
            nt = r.choice([1, 1, 2, 2, 3])
            tasks = [{"shape": r.choice(["plain", "plain", "nested", "zip", "restart"])} for _ in range(nt)]
            if r.random() < 0.2:
                tasks.append({"shape": "legacy_next"})
            mut = []
            if r.random() < 0.5:
                for _ in range(r.choice([1, 2, 4])):
                    mut.append({"op": r.choice(["scale", "translate", "translate2", "rotate", "invert", "center_atom", "write", "write_elem", "write_charge", "relabel", "dump", "ens_dump", "serialise", "serialise", "rotate_stack", "rotate_bad", "set_weights"]),
                                "a": r.randrange(1 << 16)})
            phases.append({"type": "iter", "tasks": tasks, "mutator": mut, "sched_seed": r.randrange(1 << 30),
                           "strategy": r.choice(["random", "random", "round_robin", "sticky"])})
    return {"check": CHECK, "base": base, "phases": phases}


# ---------------------------------------------------------------------------- building blocks
def _mk_mol(tmpl, coords, name="m"):
    import molli as ml

    elems, bonds = TEMPLATES[tmpl]
    m = ml.Molecule(n_atoms=len(elems), name=name)
    for a, e in zip(m.atoms, elems):
        a.element = ml.Element[e]
    m.coords[:] = coords
    for i, j in bonds:
        m.connect(m.atoms[i], m.atoms[j])
    return m


def _coords(seed, n, na):
    rr = np.random.RandomState(seed % (1 << 31))
    return np.round(rr.uniform(-5, 5, size=(n, na, 3)), 4)


class _V(Exception):
    pass


def _row(c, mc=None):
    """Which row of its ensemble a conformer stands for.  The harness does not depend on how Conformer stores that
    (a rename of a private attribute must not look like a violation): the attribute is tried first, then the public text
    form `Conformer(name=..., conf_id=N)`, then the row of the model with the conformer's coordinates."""
    i = getattr(c, "_conf_id", None)
    if i is None:
        m = re.search(r"conf_id=(-?\d+)", str(c))
        if m:
            i = int(m.group(1))
    if i is None and mc is not None:
        for k in range(mc.shape[0]):
            if np.allclose(np.asarray(c.coords), mc[k], equal_nan=True):
                return k
    return i


def run_plan(plan, trace=False):
    """Object identity is behind a seam here too (see stubs.jobsim.SimId): ensembles and molecules are created and
    released all the time in these histories; code that remembers something per id(obj) meets address reuse every time."""
    import molli.chem.ensemble as _ens_mod
    import molli.chem.io as _io_mod

    from ..core.seams import reset_process_state
    from ..stubs.jobsim import SimId

    sid = SimId()
    saved = [(m_, m_.__dict__.get("id", None)) for m_ in (_io_mod, _ens_mod)]
    for m_, _o in saved:
        m_.id = sid
    reset_process_state()
    try:
        return _run_plan(plan, trace)
    finally:
        for m_, o_ in saved:
            if o_ is None:
                try:
                    del m_.id
                except AttributeError:
                    pass
            else:
                m_.id = o_


def _run_plan(plan, trace=False):
    import molli as ml
    import msgpack
    from molli.chem.io import _deserialize_ens_v2, _serialize_ens_v2

    res = RunResult()
    base = plan["base"]
    elems, bonds = TEMPLATES[base["tmpl"]]
    na = len(elems)
    log = []
    ctx = ["construct:" + base["kind"]]

    def viol(clause, detail, extra=""):
        res.violate(clause, f"C14|{clause}|after={ctx[-1].split(':')[0] if ctx[-1].startswith('iterate') else ctx[-1]}{extra}", f"{detail} (history: {ctx[-6:]})")
        raise _V()

    st = {"ens": None, "mc": None, "mq": None, "mw": None, "sources": []}
    serial = [0]

    def check_inv(where):
        ens, mc = st["ens"], st["mc"]
        nc = mc.shape[0]
        try:
            shp = (tuple(ens.coords.shape), tuple(ens.atomic_charges.shape), tuple(ens.weights.shape), ens.n_conformers, ens.n_atoms)
        except Exception as e:  # noqa: BLE001
            viol("accessor-raises", f"{where}: reading coords/atomic_charges/weights raised {e!r}")
        want = ((nc, na, 3), (nc, na), (nc,), nc, na)
        if shp != want:
            viol("not-rectangular", f"{where}: coords{shp[0]} charges{shp[1]} weights{shp[2]} n_conformers={shp[3]} n_atoms={shp[4]}, expected {want}")
        if not np.allclose(ens.coords, mc, rtol=1e-9, atol=1e-9, equal_nan=True):
            bad = [i for i in range(nc) if not np.allclose(ens.coords[i], mc[i], rtol=1e-9, atol=1e-9, equal_nan=True)]
            viol("coordinates-differ-from-model", f"{where}: rows {bad} of coords differ from what the history put there")
        # nothing else changes: the objects the conformers were taken from keep their own coordinates ...
        for (obj, snap, what) in st["sources"][-6:]:
            if not np.allclose(np.asarray(obj.coords), snap, rtol=1e-9, atol=1e-9, equal_nan=True):
                viol("source-object-changed", f"{where}: {what} changed although only the ensemble was operated on")

    def check_usable(where):
        """every conformer can be written and the ensemble serialises (to the same shapes)"""
        ens, mc = st["ens"], st["mc"]
        nc = mc.shape[0]
        for i in range(nc):
            try:
                c = ens[i]
                t1, t2 = c.dumps_mol2(), c.dumps_xyz()
            except Exception as e:  # noqa: BLE001
                viol("conformer-dump-fails", f"{where}: ens[{i}].dumps_mol2()/dumps_xyz() raised {e!r}")
            if na and (t2.count("\n") < na + 2):
                viol("conformer-dump-short", f"{where}: xyz of conformer {i} has {t2.count(chr(10))} lines for {na} atoms")
            res.stats["probe:conformer_dump"] += 1
        try:
            blob = msgpack.dumps(_serialize_ens_v2(ens), use_single_float=True)
            back = _deserialize_ens_v2(msgpack.loads(blob, use_list=False))
        except Exception as e:  # noqa: BLE001
            viol("serialise-fails", f"{where}: _serialize_ens_v2/_deserialize_ens_v2 raised {e!r}")
        res.stats["probe:serialise_roundtrip"] += 1
        if back.coords.shape != (nc, na, 3) or back.atomic_charges.shape != (nc, na) or back.weights.shape != (nc,):
            viol("serialised-shapes-differ", f"{where}: {back.coords.shape} {back.atomic_charges.shape} {back.weights.shape}")
        if not np.allclose(back.coords, mc, rtol=1e-5, atol=1e-4, equal_nan=True):
            viol("serialised-coordinates-differ", f"{where}: coordinates changed beyond float32 precision in the round trip")
        lab_now = [(a_.element.z, a_.label) for a_ in ens.atoms]
        lab_back = [(a_.element.z, a_.label) for a_ in back.atoms]
        if lab_now != lab_back or back.name != ens.name:
            viol("serialised-atoms-differ", f"{where}: the serialised ensemble has atoms {lab_back[:6]} name {back.name!r}; the ensemble has {lab_now[:6]} name {ens.name!r}")

    try:
        # ------------------------------------------------------------ construction
        n0 = base["n_conf"]
        C0 = _coords(base["cseed"], max(n0, 1), na)
        kind = base["kind"]
        if kind == "mol":
            m = _mk_mol(base["tmpl"], C0[0], "base")
            if n0 == 0:
                ens = ml.ConformerEnsemble(m)
                nconf = 1
            else:
                ens = ml.ConformerEnsemble(m, n_conformers=n0)
                nconf = n0
            mc = np.full((nconf, na, 3), np.nan)
            # coordinates of a molecule-derived ensemble are not populated by the constructor: give them
            ens.coords = _coords(base["cseed"] + 1, nconf, na)
            mc = _coords(base["cseed"] + 1, nconf, na)
        elif kind == "list":
            mols = [_mk_mol(base["tmpl"], C0[i], "base") for i in range(n0)]
            ens = ml.ConformerEnsemble(mols)
            mc = C0[:n0].copy()
        elif kind == "ens":
            m = _mk_mol(base["tmpl"], C0[0], "base")
            e0 = ml.ConformerEnsemble(m, n_conformers=max(n0, 1))
            e0.coords = C0[: max(n0, 1)]
            ens = ml.ConformerEnsemble(e0)
            mc = C0[: max(n0, 1)].copy()
        else:
            ens = ml.ConformerEnsemble(list(elems), n_conformers=n0, name="base")
            for i, j in bonds:
                ens.connect(ens.atoms[i], ens.atoms[j])
            if n0:
                ens.coords = C0[:n0]
            mc = C0[:n0].copy() if n0 else np.zeros((0, na, 3))
        for j_, a_ in enumerate(ens.atoms):
            a_.label = f"{a_.element.symbol}{j_}v0"
        st["ens"], st["mc"] = ens, mc
        check_inv("after construction")
        check_usable("after construction")

        # ------------------------------------------------------------ phases
        for ph in plan["phases"]:
            ens, mc = st["ens"], st["mc"]
            if ph["type"] == "op":
                op = ph["op"]
                ctx.append(op)
                newc = _coords(ph["cseed"], ph["n"], na)
                if op in ("append_bad", "extend_bad"):
                    # a geometry with another number of atoms must be refused and leave the ensemble as it was
                    res.stats["probe:refused_append_or_extend"] += 1
                    other_t = "ethane" if base["tmpl"] != "ethane" else "water"
                    wrong = _mk_mol(other_t, _coords(ph["cseed"], 1, len(TEMPLATES[other_t][0]))[0], "wrong")
                    try:
                        if op == "append_bad":
                            ens.append(wrong)
                        else:
                            ens.extend([wrong])
                        accepted = True
                    except Exception:  # noqa: BLE001 - any refusal will do
                        accepted = False
                    if accepted:
                        # (also an ensemble that holds no conformer yet has its atoms: a geometry with another number of atoms
                        #  cannot be a conformer of it)
                        viol("mismatched-geometry-accepted", f"{op}: a {len(TEMPLATES[other_t][0])}-atom geometry was accepted by an ensemble of {na} atoms "
                                                            f"holding {mc.shape[0]} conformers")
                elif op == "append":
                    res.stats["probe:append"] += 1
                    for k in range(ph["n"]):
                        src_m = _mk_mol(base["tmpl"], newc[k], "app")
                        ens.append(src_m)
                        st["sources"].append((src_m, np.array(newc[k], copy=True), "the molecule passed to append()"))
                        mc = np.concatenate([mc, newc[k:k + 1]], axis=0)
                        st["mc"] = mc
                        check_inv(f"after append #{k + 1}")
                elif op in ("append_self", "extend_self"):
                    # conformers of the ensemble itself are geometries like any other: ens.append(ens[-1]) duplicates the
                    # last conformer, ens.extend([ens[-1], ens[0]]) / ens.extend(ens) add copies of existing rows
                    nc0 = mc.shape[0]
                    if nc0 == 0:
                        continue
                    res.stats["probe:own_conformers_appended"] += 1
                    rr = random.Random(ph["cseed"])
                    if op == "append_self":
                        i = rr.choice([-1, -1, 0, -nc0, nc0 - 1, rr.randrange(-nc0, nc0)])
                        ens.append(ens[i])
                        mc = np.concatenate([mc, mc[i:i + 1] if i != -1 else mc[-1:]], axis=0)
                    elif rr.random() < 0.3 and nc0 <= 6:
                        ens.extend(ens)
                        mc = np.concatenate([mc, mc], axis=0)
                    else:
                        idx = [rr.choice([-1, 0, -nc0, rr.randrange(-nc0, nc0)]) for _ in range(ph["n"])]
                        ens.extend([ens[i] for i in idx])
                        mc = np.concatenate([mc] + [mc[i % nc0][np.newaxis] for i in idx], axis=0)
                elif op == "extend_mixed":
                    # a list that mixes kinds of geometries: plain Structures (no partial charges), Molecules, a conformer
                    res.stats["probe:extend_mixed_kinds"] += 1
                    items_ = []
                    for k in range(ph["n"]):
                        m_ = _mk_mol(base["tmpl"], newc[k], "ext")
                        items_.append(ml.Structure(m_) if k % 2 == 0 else m_)
                    extra_ = []
                    if mc.shape[0]:
                        items_.append(ens[0])
                        extra_ = [mc[0:1]]
                    ens.extend(items_)
                    mc = np.concatenate([mc, newc] + extra_, axis=0)
                elif op == "extend_list":
                    res.stats["probe:extend_list"] += 1
                    ens.extend([_mk_mol(base["tmpl"], newc[k], "ext") for k in range(ph["n"])])
                    mc = np.concatenate([mc, newc], axis=0)
                elif op in ("extend_gen", "extend_iter", "extend_tuple"):
                    # any iterable of geometries is accepted by the signature: a generator, an iterator over another
                    # ensemble, a tuple
                    res.stats["probe:extend_oneshot_iterable"] += 1
                    if op == "extend_gen":
                        ens.extend(_mk_mol(base["tmpl"], newc[k], "ext") for k in range(ph["n"]))
                    elif op == "extend_tuple":
                        ens.extend(tuple(_mk_mol(base["tmpl"], newc[k], "ext") for k in range(ph["n"])))
                    else:
                        e2 = ml.ConformerEnsemble(_mk_mol(base["tmpl"], newc[0], "ext"), n_conformers=ph["n"])
                        e2.coords = newc
                        ens.extend(iter(e2))
                    mc = np.concatenate([mc, newc], axis=0)
                elif op == "extend_ens":
                    res.stats["probe:extend_ens"] += 1
                    e2 = ml.ConformerEnsemble(_mk_mol(base["tmpl"], newc[0], "ext"), n_conformers=ph["n"])
                    e2.coords = newc
                    ens.extend(e2)
                    mc = np.concatenate([mc, newc], axis=0)
                    st["sources"].append((e2, np.array(newc, copy=True), "the ensemble passed to extend()"))
                elif op == "copy":
                    res.stats["probe:copy_construct"] += 1
                    old_ = ens
                    ens = ml.ConformerEnsemble(ens)
                    # the ensemble it was copied from is an object of its own: whatever happens to the copy from now on,
                    # the original keeps its coordinates (it stays in the list of watched source objects)
                    st["sources"].append((old_, np.array(mc, copy=True), "the ensemble the current one was copy-constructed from"))
                elif op == "rebuild":
                    if mc.shape[0] == 0:
                        continue
                    res.stats["probe:rebuild_from_conformers"] += 1
                    ens = ml.ConformerEnsemble([ml.Molecule(c) for c in ens[:]])
                elif op == "reload":
                    # the ensemble is stored and loaded again (what a ConformerLibrary does); the history goes on with the
                    # loaded object: it must be as much an ensemble as the one that was stored
                    res.stats["probe:history_continues_on_reloaded_ensemble"] += 1
                    blob = msgpack.dumps(_serialize_ens_v2(ens), use_single_float=True)
                    ens = _deserialize_ens_v2(msgpack.loads(blob, use_list=False))
                    if tuple(ens.coords.shape) != tuple(mc.shape) or not np.allclose(ens.coords, mc, rtol=1e-5, atol=1e-4, equal_nan=True):
                        viol("serialised-coordinates-differ", f"reload: shape {ens.coords.shape} vs {mc.shape} or coordinates changed beyond float32 precision")
                    mc = np.array(ens.coords, dtype=float, copy=True)
                    if mc.shape[0] and na:
                        # a loaded ensemble is written through like any other
                        i = ph["cseed"] % mc.shape[0]
                        q = np.round(np.linspace(-0.25, 0.25, na), 4)
                        ens[i].atomic_charges = q
                        if not np.allclose(ens.atomic_charges[i], q):
                            viol("charge-write-not-visible", f"reload: partial charges written through ens[{i}] of a loaded ensemble are not in the ensemble")
                        new = np.round(mc[i] + 0.125, 4)
                        ens[i].coords = new
                        mc[i] = new
                elif op == "temp_views":
                    # conformers obtained from an ensemble nobody else holds on to (list(build()), a slice of a temporary):
                    # they are full molecule views and keep working
                    if mc.shape[0] == 0:
                        continue
                    res.stats["probe:conformers_of_a_temporary_ensemble"] += 1
                    how = ph["cseed"] % 3
                    if how == 0:
                        views = list(ml.ConformerEnsemble(ens))
                    elif how == 1:
                        views = ml.ConformerEnsemble(ens)[:]
                    else:
                        views = [ml.ConformerEnsemble(ens)[i] for i in range(mc.shape[0])]
                    for i, v_ in enumerate(views):
                        if not np.allclose(v_.coords, mc[i], equal_nan=True):
                            viol("coordinates-differ-from-model", f"temp_views: conformer {i} of a temporary copy shows other coordinates than row {i}")
                        v_.dumps_xyz()
                        v_.coords = mc[i] + 1.0
                        if not np.allclose(v_.coords, mc[i] + 1.0, equal_nan=True):
                            viol("write-not-visible-through-second-view", f"temp_views: a write through conformer {i} of a temporary copy is not read back")
                    if how != 2 and len(views) > 1 and not np.allclose(views[0].coords, mc[0] + 1.0, equal_nan=True):
                        viol("write-through-conformer-changed-another-row", "temp_views: writing through later conformers of a temporary copy changed conformer 0")
                elif op == "slice":
                    res.stats["probe:slice"] += 1
                    nc = mc.shape[0]
                    rr = random.Random(ph["cseed"])
                    a, b = sorted((rr.randrange(nc + 1), rr.randrange(nc + 1)))
                    sl = ens[a:b]
                    ids = [_row(c, mc) for c in sl]
                    if ids != list(range(a, b)):
                        viol("slice-wrong-conformers", f"ens[{a}:{b}] gave conformer ids {ids}")
                    for c in sl:
                        if not np.allclose(c.coords, mc[_row(c, mc)], equal_nan=True):
                            viol("slice-not-a-view-of-its-row", f"ens[{a}:{b}] conformer {_row(c, mc)} does not show row {_row(c, mc)}")
                if op in ("copy", "rebuild", "reload"):
                    # every ensemble object of the history is recognisable by its atom labels
                    serial[0] += 1
                    for j_, a_ in enumerate(ens.atoms):
                        a_.label = f"{a_.element.symbol}{j_}v{serial[0]}"
                    ens.name = f"ens_v{serial[0]}"
                st["ens"], st["mc"] = ens, mc
                check_inv(f"after {op}")
                check_usable(f"after {op}")
                if st["sources"] and op in ("append", "extend_ens"):
                    # ... and the other way round: moving the object a conformer was taken FROM leaves the ensemble alone
                    obj, snap, what = st["sources"][-1]
                    obj.coords[:] = np.asarray(obj.coords) + 0.5
                    st["sources"][-1] = (obj, snap + 0.5, what)
                    ctx.append("modify-source")
                    check_inv(f"after moving {what}")
            else:
                _iter_phase(ph, st, res, viol, check_inv, ctx, na, log, _serialize_ens_v2, _deserialize_ens_v2, msgpack)
    except _V:
        pass
    except Exception as e:  # noqa: BLE001 - none of the listed operations may fail
        import traceback

        site = traceback.extract_tb(e.__traceback__)[-1]
        res.violate("operation-raises", f"C14|operation-raises|after={ctx[-1].split(':')[0] if ctx[-1].startswith('iterate') else ctx[-1]}|{type(e).__name__}",
                    f"{ctx[-1]} raised {e!r} at {site.filename.split('/')[-1]}:{site.lineno} (history: {ctx[-6:]})")
    res.stats["phases"] += len(plan["phases"])
    res.digest = digest((log, ctx, [(v["signature"], v["detail"]) for v in res.violations]))
    res.sample = {"base": base, "phases": [(p["type"], p.get("op") or [t["shape"] for t in p["tasks"]]) for p in plan["phases"]]}
    if trace:
        res.trace = [f"base {base}"] + [f"phase {i}: {p}" for i, p in enumerate(plan["phases"])] + [f"log: {log[-40:]}"]
        for v in res.violations[:4]:
            res.trace.append(f"VIOLATED {v['clause']}: {v['detail']}")
    return res


def _iter_phase(ph, st, res, viol, check_inv, ctx, na, log, ser, deser, msgpack):
    ens = st["ens"]
    nc = st["mc"].shape[0]
    shapes = [t["shape"] for t in ph["tasks"]]
    ctx.append("iterate:" + "+".join(shapes))
    if nc == 0:
        res.stats["probe:empty_ensemble_iterated"] += 1
    observed = {}

    def plain(tid):
        it = iter(ens)
        out = observed.setdefault(tid, [])
        while True:
            yield "next"
            try:
                c = next(it)
            except StopIteration:
                out.append("stop")
                return
            out.append(_row(c, st["mc"]))

    def restart(tid):
        # abandon an iteration half way, then iterate again from scratch: the second pass must be complete
        it = iter(ens)
        for _ in range(nc // 2):
            yield "next"
            try:
                next(it)
            except StopIteration:
                break
        yield from plain(tid)

    def nested(tid):
        out = observed.setdefault(tid, [])
        outer = iter(ens)
        while True:
            yield "next"
            try:
                a = next(outer)
            except StopIteration:
                out.append("stop")
                return
            inner = iter(ens)
            ids = []
            while True:
                yield "next"
                try:
                    b = next(inner)
                except StopIteration:
                    break
                ids.append(_row(b, st["mc"]))
                if len(ids) > nc + 2:
                    break
            out.append((_row(a, st["mc"]), tuple(ids)))
            if len(out) > nc + 2:
                return

    def zipped(tid):
        out = observed.setdefault(tid, [])
        z = zip(ens, ens)
        while True:
            yield "next"
            try:
                a, b = next(z)
            except StopIteration:
                out.append("stop")
                return
            out.append((_row(a, st["mc"]), _row(b, st["mc"])))
            if len(out) > nc + 2:
                return

    def legacy_next(tid):
        # somebody still drives the ensemble through the old protocol - next(ens) on the ensemble object itself - while
        # proper iterations are in flight.  What the old protocol returns is not judged; the iterations must not notice.
        for _ in range(nc + 1):
            yield "next"
            try:
                next(ens)
            except Exception:  # noqa: BLE001 - StopIteration, or whatever the old protocol does when used like this: not judged
                pass

    def mutator(tid):
        for k, mo in enumerate(ph["mutator"]):
            yield "mut"
            _mutate(mo, st, res, viol, na, ser, deser, msgpack)
            check_inv(f"after mutator op {mo['op']} during iteration")
            for hi_, v_ in enumerate(held):
                res.stats["probe:held_view_checked_after_mutation"] += 1
                if not np.allclose(v_.coords, st["mc"][hi_], rtol=1e-9, atol=1e-9, equal_nan=True):
                    viol("held-view-is-stale", f"a conformer view of row {hi_} taken before {mo['op']} no longer shows the ensemble's row")

    held = [ens[i] for i in range(nc)]      # long-lived views: they must stay live whatever happens to the ensemble
    st["held"] = held
    makers = {"plain": plain, "nested": nested, "zip": zipped, "restart": restart, "legacy_next": legacy_next}
    tasks = []
    for tid, t in enumerate(ph["tasks"]):
        tasks.append((tid, t["shape"], makers[t["shape"]](tid)))
        res.stats["probe:iter_" + t["shape"]] += 1
    if ph["mutator"]:
        tasks.append((len(tasks), "mutator", mutator(len(tasks))))
    rr = random.Random(ph["sched_seed"])
    live = list(tasks)
    order = []
    last = None
    cap = 60 * (nc + 2) * (nc + 2) + 200
    steps = 0
    rri = 0
    while live:
        steps += 1
        if steps > cap:
            viol("iteration-does-not-terminate", f"iteration phase {shapes} over {nc} conformers still running after {cap} steps", f"|shapes={'+'.join(sorted(set(shapes)))}")
        strat = ph.get("strategy", "random")
        if strat == "round_robin":
            t = live[rri % len(live)]
            rri += 1
        elif strat == "sticky" and last in live and rr.random() < 0.7:
            t = last
        else:
            t = live[rr.randrange(len(live))]
        last = t
        order.append(t[0])
        try:
            kind = next(t[2])
            if kind == "mut":
                res.stats["probe:mutator_between_nexts"] += 1
        except StopIteration:
            live.remove(t)
    if len(tasks) >= 2:
        res.stats["probe:two_or_more_tasks_interleaved"] += 1
    log.append((shapes, order))
    # ---- the iteration oracle
    for tid, shape, _g in tasks:
        if shape in ("mutator", "legacy_next"):
            continue
        got = observed.get(tid, [])
        if shape in ("plain", "restart"):
            want = list(range(nc)) + ["stop"]
        elif shape == "nested":
            want = [(i, tuple(range(nc))) for i in range(nc)] + ["stop"]
        else:
            want = [(i, i) for i in range(nc)] + ["stop"]
        if got != want:
            others = "+".join(sorted(s for (t2, s, _g2) in tasks if t2 != tid)) or "alone"
            viol("iteration-order", f"task {tid} ({shape}) over {nc} conformers saw {got[:12]} instead of {want[:12]}; interleaving {order[:40]}",
                 f"|shape={shape}|with={'others' if others != 'alone' else 'alone'}")
    if len(tasks) >= 2 or any(s in ("nested", "zip") for s in shapes):
        res.keys.append(digest((shapes, order, nc)))


def _mutate(mo, st, res, viol, na, ser, deser, msgpack):
    ens, mc = st["ens"], st["mc"]
    nc = mc.shape[0]
    a = mo["a"]
    op = mo["op"]
    if op == "scale":
        f = [0.5, 2.0, 1.5][a % 3]
        ens.scale(f)
        mc *= f
    elif op == "translate":
        v = np.array([(a % 7) - 3.0, ((a >> 3) % 5) - 2.0, 0.25])
        ens.translate(v)
        mc += v
    elif op == "translate2":
        if nc == 0:
            return
        v = np.arange(nc * 3, dtype=float).reshape(nc, 3) * 0.5 + (a % 4)
        ens.translate(v)
        mc += v[:, np.newaxis, :]
    elif op == "rotate":
        R = np.array([[0.0, -1.0, 0.0], [1.0, 0.0, 0.0], [0.0, 0.0, 1.0]])
        ens.rotate(R)
        mc[:] = mc @ R
    elif op == "set_weights":
        # weights given as one number for all conformers, or as a list: afterwards there is still one weight per conformer
        w_ = 0.25 if a % 2 else [1.0 / (nc or 1)] * nc
        ens.weights = w_
        res.stats["probe:weights_assigned"] += 1
        if tuple(np.shape(ens.weights)) != (nc,) or (nc and not np.allclose(ens.weights, w_)):
            viol("not-rectangular", f"after `ens.weights = {w_!r}` the weights are {np.asarray(ens.weights)!r} (shape {np.shape(ens.weights)}), expected one weight per conformer ({nc})")
    elif op == "rotate_stack":
        # one rotation matrix per conformer
        if nc == 0:
            return
        Rz = np.array([[0.0, -1.0, 0.0], [1.0, 0.0, 0.0], [0.0, 0.0, 1.0]])
        Rx = np.array([[1.0, 0.0, 0.0], [0.0, 0.0, -1.0], [0.0, 1.0, 0.0]])
        Rs = np.stack([Rz if (a >> i) & 1 else Rx for i in range(nc)])
        ens.rotate(Rs)
        for i in range(nc):
            mc[i] = mc[i] @ Rs[i]
        res.stats["probe:per_conformer_rotation"] += 1
    elif op == "rotate_bad":
        # something that is not a rotation of THIS ensemble (one matrix too many; a bare vector) is refused and changes nothing
        if nc == 0 or na in (1, 3):
            return
        Rz = np.array([[0.0, -1.0, 0.0], [1.0, 0.0, 0.0], [0.0, 0.0, 1.0]])
        bad = np.stack([Rz] * (nc + 1)) if a % 2 else np.array([1.0, 0.0, 0.0])
        res.stats["probe:refused_rotation"] += 1
        try:
            ens.rotate(bad)
            accepted = True
        except Exception:  # noqa: BLE001 - any refusal will do
            accepted = False
        if accepted:
            viol("bad-rotation-accepted", f"rotate() accepted an argument of shape {bad.shape} for an ensemble of {nc} conformers; arrays now "
                                          f"{tuple(ens.coords.shape)} {tuple(ens.atomic_charges.shape)} {tuple(ens.weights.shape)}")
    elif op == "relabel":
        # constitution-level edits between two stores: what is serialised must be what the ensemble is NOW
        if na == 0:
            return
        j = a % na
        ens.atoms[j].label = f"relab{a}"
        res.stats["probe:atom_relabelled_between_stores"] += 1
    elif op == "invert":
        ens.invert()
        mc *= -1.0
    elif op == "center_atom":
        if nc == 0 or na == 0:
            return
        j = a % na
        ens.center_at_atom(ens.atoms[j])
        mc -= mc[:, j:j + 1, :].copy()
    elif op == "write_charge":
        # partial charges are a view of the ensemble's row too
        if nc == 0 or na == 0:
            return
        i = a % nc
        q0 = np.array(ens.atomic_charges, copy=True)
        new = np.round(np.linspace(-0.5, 0.5, na) + (a % 3) * 0.125, 4)
        ens[i].atomic_charges = new
        q0[i] = new
        if not np.allclose(ens.atomic_charges, q0):
            viol("charge-write-not-confined-to-its-row", f"writing partial charges through ens[{i}] left the ensemble's charges at {ens.atomic_charges.tolist()} instead of {q0.tolist()}")
        if not np.allclose(ens[i].atomic_charges, new):
            viol("charge-write-not-visible", f"a second ens[{i}] view does not show the partial charges just written")
        res.stats["probe:write_through_conformer"] += 1
    elif op in ("write", "write_elem"):
        if nc == 0 or na == 0:
            return
        i = a % nc
        res.stats["probe:write_through_conformer"] += 1
        before = np.array(ens.coords, copy=True)
        c1, c2 = ens[i], ens[i]
        if (a >> 8) % 2 and st.get("held"):
            c1 = st["held"][i]     # write through a view that has been around since before earlier transformations
        if op == "write":
            new = np.round(np.linspace(-1, 1, na * 3).reshape(na, 3) + (a % 11), 3)
            c1.coords = new
            mc[i] = new
        else:
            j = (a >> 4) % na
            c1.coords[j] = [1.0 + a % 5, -2.0, 3.5]
            mc[i, j] = [1.0 + a % 5, -2.0, 3.5]
        if not np.allclose(c2.coords, mc[i], equal_nan=True) or not np.allclose(ens.coords[i], mc[i], equal_nan=True):
            viol("write-not-visible-through-second-view", f"write through a view of row {i} is not seen by the ensemble / a second ens[{i}] view")
        for k in range(nc):
            if k != i and not np.allclose(ens.coords[k], before[k], equal_nan=True):
                viol("write-through-conformer-changed-another-row", f"write through ens[{i}] changed row {k}")
    elif op == "dump":
        if nc == 0:
            return
        i = a % nc
        try:
            ens[i].dumps_mol2()
            ens[i].dumps_xyz()
        except Exception as e:  # noqa: BLE001
            viol("conformer-dump-fails", f"ens[{i}].dumps_* raised {e!r}")
        res.stats["probe:conformer_dump"] += 1
    elif op == "ens_dump":
        # the ensemble writes all its conformers (the writer iterates over the ensemble - possibly while a caller does)
        if nc == 0 or na == 0:
            return
        import molli as ml

        try:
            t1, t2 = ens.dumps_mol2(), ens.dumps_xyz()
            b1, b2 = ml.ConformerEnsemble.loads_mol2(t1), ml.ConformerEnsemble.loads_xyz(t2)
        except Exception as e:  # noqa: BLE001
            viol("ensemble-dump-fails", f"ens.dumps_mol2()/dumps_xyz() and reading them back raised {e!r}")
        res.stats["probe:ensemble_dump_roundtrip"] += 1
        for what, b in (("mol2", b1), ("xyz", b2)):
            if tuple(b.coords.shape) != (nc, na, 3):
                viol("ensemble-dump-wrong-shape", f"{what} text of the ensemble reads back as {b.coords.shape}, expected {(nc, na, 3)}")
            if not np.allclose(b.coords, mc, rtol=0, atol=2e-4, equal_nan=True):
                bad = [i for i in range(nc) if not np.allclose(b.coords[i], mc[i], rtol=0, atol=2e-4, equal_nan=True)]
                viol("ensemble-dump-wrong-coordinates", f"{what} text of the ensemble: conformers {bad} read back with other coordinates than rows {bad}")
        # the mol2 text carries the partial charges of every conformer too
        q_now = np.asarray(ens.atomic_charges, dtype=float)
        if tuple(b1.atomic_charges.shape) != (nc, na) or not np.allclose(b1.atomic_charges, q_now, rtol=0, atol=2e-3, equal_nan=True):
            bad = [i for i in range(nc) if tuple(b1.atomic_charges.shape) != (nc, na) or not np.allclose(b1.atomic_charges[i], q_now[i], rtol=0, atol=2e-3, equal_nan=True)]
            viol("ensemble-dump-wrong-charges", f"mol2 text of the ensemble: conformers {bad} read back with other partial charges than the ensemble holds")
    elif op == "serialise":
        try:
            back = deser(msgpack.loads(msgpack.dumps(ser(ens), use_single_float=True), use_list=False))
        except Exception as e:  # noqa: BLE001
            viol("serialise-fails", f"serialise/deserialise raised {e!r}")
        res.stats["probe:serialise_roundtrip"] += 1
        if back.coords.shape != (nc, na, 3):
            viol("serialised-shapes-differ", f"{back.coords.shape}")
        lab_now = [(a_.element.z, a_.label) for a_ in ens.atoms]
        lab_back = [(a_.element.z, a_.label) for a_ in back.atoms]
        if lab_now != lab_back or back.name != ens.name:
            viol("serialised-atoms-differ", f"the serialised ensemble has atoms {lab_back[:6]} name {back.name!r}; the ensemble has {lab_now[:6]} name {ens.name!r}")


def shrink_candidates(plan):
    ph = plan["phases"]
    for i in range(len(ph) - 1, -1, -1):
        if len(ph) > 1:
            p = copy.deepcopy(plan)
            del p["phases"][i]
            yield p
    for i, x in enumerate(ph):
        if x["type"] == "iter":
            if len(x["tasks"]) > 1:
                for j in range(len(x["tasks"])):
                    p = copy.deepcopy(plan)
                    del p["phases"][i]["tasks"][j]
                    yield p
            if x["mutator"]:
                p = copy.deepcopy(plan)
                p["phases"][i]["mutator"] = []
                yield p
                for j in range(len(x["mutator"])):
                    p = copy.deepcopy(plan)
                    del p["phases"][i]["mutator"][j]
                    yield p
            if x.get("strategy") != "round_robin":
                p = copy.deepcopy(plan)
                p["phases"][i]["strategy"] = "round_robin"
                yield p
            for j, t in enumerate(x["tasks"]):
                if t["shape"] != "plain":
                    p = copy.deepcopy(plan)
                    p["phases"][i]["tasks"][j]["shape"] = "plain"
                    yield p
        elif x.get("n", 1) > 1:
            p = copy.deepcopy(plan)
            p["phases"][i]["n"] = 1
            yield p
    b = plan["base"]
    if b["tmpl"] != "hcl":
        p = copy.deepcopy(plan)
        p["base"]["tmpl"] = "hcl"
        yield p
    if b["n_conf"] > 2:
        p = copy.deepcopy(plan)
        p["base"]["n_conf"] = 2
        yield p
    if b["kind"] != "atoms":
        p = copy.deepcopy(plan)
        p["base"]["kind"] = "atoms"
        yield p
