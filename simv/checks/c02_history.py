"""C02 - a library file is an insert-only key-value map over any operation history.

One simulated process, the simulated disk under the real buffering layer, 1-3 handle
objects on the same path (raw UKVFile handles and Collections over UkvCollectionBackend,
some pickle-cloned) whose cached tables of contents go stale while another handle
appends.  A seeded history of opens / closes / session begins and ends / puts / gets /
listings - including the property's own failing operations - is replayed against a
dict model after every step.
"""
from __future__ import annotations

import copy
import pickle
from io import UnsupportedOperation

from ..core import kernel as K
from ..core.engine import RunResult
from ..core.rng import digest
from ..core.seams import storage_seams
from .common import LIBPATH, key_bytes, short, value_bytes

ID = "C02"
CHECK = "c02_history"
LEVEL = "exploration"
RULE = (
    "A case is one operation history (5-60 operations; ~12% of runs at most 6) over 1-3 handles on one path: raw UKVFile "
    "handles (creation with x/w and given h1/h2/b0, reopen r/a through the SAME object so its cached table of contents and "
    "end offset are reused) and Collections (read-only / writable; bufsize -1, 0, small, large; fresh or pickle-cloned). At most "
    "one handle is open at a time; staleness arises across open/close while another handle appended. Operations: open, close, "
    "session begin/end, put, get, keys, contains/len/items/values/iteration, explicit flush, clone, and the failing operations duplicate "
    "key, key longer than 255 BYTES (also: fewer than 256 characters but more than 255 bytes in UTF-8), non-bytes value, exclusive "
    "creation of the existing file, write through a read-only handle, use of a closed UKVFile. Key alphabet: 1-byte, binary (\\x00, "
    "\\xff), multi-byte UTF-8, 254/255 and 256+ bytes; "
    "values 0 B..70 kB incl. raw-buffer boundary sizes. After every step the handle's view is compared with a dict model; at "
    "every close a throw-away reader must see exactly the model and the creation header. distinct_nontrivial counts distinct "
    "digests of (op kind, handle kind, outcome) sequences among histories with a stale reopen or a failing operation."
)
ASSUMPTIONS = [
    "At most one handle is open (inside a session) at a time; two open handles in one process are outside the claim.",
    "Failing operations generated: duplicate key, oversize (256-byte) key, write through a read-only handle / closed UKVFile. I/O errors belong to C03/C04.",
    "A put is 'successful' when it returns without raising; with a deferring collection buffer a failure surfaces at the flush (session end), which is then the failing operation.",
    "SimFS + real io.Buffered* layer stand in for the disk; mode 'w' is used for first creation only (overwriting is not an insert-only operation).",
]
REAL_VS_STUB = {
    "real": ["molli.storage.ukvfile.UKVFile", "UkvCollectionBackend / Collection", "io.BufferedRandom / BufferedReader", "struct", "pickle of handles",
             "fasteners lock logic (uncontended)"],
    "stub": ["raw disk + namespace (SimFS)", "fcntl lock table (SimLockMech)", "clock"],
}
FAULT_PROBES = {"duplicate_key_put": "dup_rejected", "oversize_key_put": "key_256_rejected", "write_through_readonly_handle": "readonly_write_rejected",
                "use_of_closed_handle": "closed_handle_rejected", "non_bytes_value": "badvalue_rejected", "exclusive_create_of_existing_file": "create_existing_rejected"}
# a small share of the runs is repeated by fresh interpreters started with `python -O` (assert statements stripped)
INTERP_VARIANTS = [{"flags": ["-O"], "runs": {"quick": 2000, "thorough": 40000}, "what": "python -O (assert statements stripped from the code under test)"}]
PROBES = ["shortcut_taken", "rescan_forced_by_other_handle", "rescan_after_failed_put", "flush_by_bufsize_threshold", "key_255", "key_256_rejected",
          "direct_raw_write", "dup_rejected", "readonly_write_rejected", "closed_handle_rejected", "clone_used", "queued_key_read_in_session",
          "history_len_le_6", "badvalue_rejected", "put_left_in_the_queue", "create_existing_rejected", "explicit_flush",
          "multibyte_key_stored", "multibyte_key_oversize_in_bytes_only", "reopened_without_explicit_mode", "session_left_by_callers_exception"]


def pre_checks(tier):
    from ..conformance import real_fs

    return {"conformance_fs": real_fs.run()}


def budget(tier):
    if tier == "quick":
        return {"runs": 160000, "chunk": 500, "wall_cap": 400.0, "det_sample": 8}
    return {"runs": 9000000, "chunk": 1000, "wall_cap": 3300.0, "det_sample": 40}


# ---------------------------------------------------------------------------- generation
_KEYS = ["", "a", "b", "k1", "k2", "k3", "key-long-1", "\x00", "\xff", "\x00\xff\x01", ["L1_", 255], ["L2_", 255], ["M_", 100]]
_KEYS_ASCII = ["", "a", "b", "k1", "k2", "k3", "key-long-1", "Z", "zz", ["L1_", 255], ["L2_", 255], ["M_", 100]]
# keys of a Collection are str, stored UTF-8 encoded: multi-byte keys whose byte length (what the file format limits to 255)
# differs from their character length.  127 x 2 = 254 B and 85 x 3 = 255 B fit; 128 x 2 = 256 B and 86 x 3 = 258 B do not
# although they have far fewer than 255 characters.
_KEYS_UTF8 = [["U", "\u00e9", 1], ["U", "\u20ac1", 1], ["U", "\u00fc", 127], ["U", "\u20ac", 85]]
_KEYS_UTF8_OVERSIZE = [["U", "\u00fc", 128], ["U", "\u20ac", 86], ["U", "\u00e9", 200]]


def _gen_val(r, tag, bufsize):
    c = r.random()
    if c < 0.15:
        n = 0
    elif c < 0.35:
        n = 1
    elif c < 0.75:
        n = r.randrange(2, 150)
    elif c < 0.9:
        n = max(0, bufsize + r.randrange(-9, 10))
    elif c < 0.97:
        n = r.randrange(150, 3000)
    else:
        n = r.choice([8192, 20000, 70000])
    return [tag, n, "hdr" if r.random() < 0.15 else "txt"]


def gen_plan(r, tier, index):
    bufsize = r.choice([8192, 8192, 4096, 65536, 64, 16])
    nh = r.choice([1, 2, 2, 3, 3])
    handles = []
    for i in range(nh):
        if r.random() < 0.5:
            handles.append({"type": "ukv"})
        else:
            handles.append({"type": "coll", "readonly": i > 0 and r.random() < 0.3,
                            "cb": r.choice([-1, -1, 0, 30, 1 << 20])})
    all_coll = all(h["type"] == "coll" for h in handles)
    any_coll = any(h["type"] == "coll" for h in handles)
    keys = (_KEYS_ASCII + _KEYS_UTF8) if any_coll else (_KEYS + _KEYS_UTF8[:2])
    short_hist = r.random() < 0.12
    length = r.randrange(2, 7) if short_hist else r.randrange(5, 61)
    header = {"h1": r.choice([None, None, "MYLIB", "ML10UKV01", "SIXTEENBYTESLONG"]), "h2": r.choice(["", "", "a comment", "x" * 700]),
              "b0len": r.choice([0, 0, 5, 300])}
    # the generator tracks which handle is open so that histories are well-formed
    ops = []
    state = {"open": None, "created": [False] * nh, "exists": False, "mode": None, "model": set(), "tag": 0, "last": ["a"] * nh}
    creator = 0
    ops.append({"op": "create", "h": creator, "mode": r.choice(["x", "x", "w"])})
    state["created"][creator] = True
    state["exists"] = True
    # after creation a ukv handle is open in its creation mode (writable); a collection is idle
    if handles[creator]["type"] == "ukv":
        state["open"], state["mode"] = creator, "a"
    for _ in range(length):
        o = state["open"]
        if o is None:
            h = r.randrange(nh)
            if not state["created"][h] and handles[h]["type"] == "coll" or (not state["created"][h]):
                ops.append({"op": "new", "h": h})
                state["created"][h] = True
                if handles[h]["type"] == "ukv":
                    # a new ukv handle is constructed open; choose its mode
                    m = r.choice(["r", "a", "a"])
                    ops[-1]["mode"] = m
                    state["open"], state["mode"] = h, m
                    state["last"][h] = m
                continue
            c = r.random()
            if c < 0.08 and nh > 1:
                to = r.randrange(nh)
                if to != h and handles[to] == handles[h]:
                    ops.append({"op": "clone", "h": h, "to": to})
                    state["created"][to] = True
                    state["last"][to] = state["last"][h]
                    continue
            if c > 0.95:
                # creating a library that already exists must fail and leave it alone
                ops.append({"op": "x_existing", "h": h})
                continue
            if handles[h]["type"] == "ukv":
                if c < 0.2:
                    # use of a closed handle must fail
                    ops.append({"op": r.choice(["put_closed", "get_closed"]), "h": h, "k": r.choice(keys), "v": [0, 3]})
                    continue
                m = r.choice(["r", "a", "a", None])
                # (None: reopened the way `with f:` / `f.open()` do it - in the mode the handle was last used in; a handle
                #  that CREATED the file continues in append mode)
                ops.append({"op": "open", "h": h, "mode": m})
                m = m or state["last"][h]
                state["last"][h] = m
                state["open"], state["mode"] = h, m
            else:
                ro = handles[h]["readonly"]
                if ro and c < 0.15:
                    ops.append({"op": "begin_w_readonly", "h": h})
                    continue
                kind = "r" if ro or r.random() < 0.35 else "w"
                ops.append({"op": "begin", "h": h, "kind": kind})
                state["open"], state["mode"] = h, ("r" if kind == "r" else "a")
            continue
        # a handle is open
        h = o
        typ = handles[h]["type"]
        c = r.random()
        if c < 0.16:
            ops.append({"op": "close" if typ == "ukv" else "end", "h": h})
            if typ == "coll" and state["mode"] == "a" and r.random() < 0.25:
                # the session is left by an exception of the caller's: every put that RETURNED is a successful put all the same
                ops[-1]["op"] = "abort"
            state["open"] = None
            continue
        if c < 0.55:
            if state["mode"] == "r":
                if c < 0.25:
                    ops.append({"op": "put_readonly", "h": h, "k": r.choice(keys), "v": [0, 4]})
                else:
                    ops.append({"op": "get", "h": h, "k": r.choice(keys)})
                continue
            state["tag"] += 1
            cc = r.random()
            if r.random() < 0.06:
                ops.append({"op": "put_badvalue", "h": h, "k": f"bad{state['tag']}", "kind": r.choice(["str", "empty_str", "none", "int", "list"])})
                continue
            if cc < 0.07:
                k = [f"OV{state['tag']}_", 256]
                if r.random() < 0.4:
                    # fewer than 256 characters, more than 255 bytes
                    k = list(r.choice(_KEYS_UTF8_OVERSIZE))
            elif cc < 0.2 and state["model"]:
                k = r.choice(sorted(state["model"], key=repr))
                k = list(k) if isinstance(k, tuple) else k
            else:
                k = r.choice(keys)
            ops.append({"op": "put", "h": h, "k": k, "v": _gen_val(r, state["tag"], bufsize)})
            kk = tuple(k) if isinstance(k, list) else k
            if len(key_bytes(k)) <= 255:
                state["model"].add(kk)
            continue
        if c < 0.75:
            ops.append({"op": "get", "h": h, "k": r.choice(keys)})
        elif c < 0.88:
            ops.append({"op": "keys", "h": h})
        elif c < 0.91:
            ops.append({"op": "flush", "h": h})
        else:
            ops.append({"op": r.choice(["contains", "len", "items", "values", "iter"]), "h": h, "k": r.choice(keys)})
    if state["open"] is not None:
        ops.append({"op": "close" if handles[state["open"]]["type"] == "ukv" else "end", "h": state["open"]})
    return {"check": CHECK, "bufsize": bufsize, "handles": handles, "header": header, "ops": ops}


# ---------------------------------------------------------------------------- execution
class _Stop(Exception):
    pass


def _mk_coll(path, readonly, cb, **kw):
    from molli.storage import Collection, UkvCollectionBackend

    return Collection(path, UkvCollectionBackend, readonly=readonly, bufsize=cb, **kw)


def run_plan(plan, trace=False):
    from molli.storage.ukvfile import UKVFile

    res = RunResult()
    kern = K.Kernel(bufsize=plan["bufsize"])
    kern.max_events = 400000
    path = K.SimPath(LIBPATH)
    hdr = plan["header"]
    h1 = hdr["h1"].encode() if hdr["h1"] else None
    h2 = hdr["h2"].encode()
    b0 = bytes((i * 7 + 3) % 251 + 1 for i in range(hdr["b0len"])) if hdr["b0len"] else None
    exp_h1 = (h1 or b"ML10UKV01").ljust(16, b"\0")
    model: dict[bytes, bytes] = {}
    H = [{"obj": None, "cm": None, "open": False, "mode": None, "idx": i, **h} for i, h in enumerate(plan["handles"])]
    log = []
    outcome_seq = []
    stale_or_fail = [False]
    appended_since = [0] * len(H)   # how many puts other handles did since this handle last looked
    refused_later = []

    def cfgname(h):
        if h["type"] == "ukv":
            return "ukv"
        cb = h["cb"]
        return "coll/" + ("default" if cb == -1 else "0" if cb == 0 else "small" if cb < 1000 else "large")

    def viol(clause, opname, h, detail):
        res.violate(clause, f"C02|{clause}|op={opname}|{cfgname(h)}", f"step {len(log)} {opname} on handle {h['idx']} ({cfgname(h)}): {detail}")
        raise _Stop()

    def listing(h):
        if h["type"] == "ukv":
            return [bytes(k) for k in h["obj"].keys()]
        return [k.encode("utf-8") for k in h["obj"].keys()]

    def getter(h, kb):
        if h["type"] == "ukv":
            return h["obj"][kb] if len(log) % 3 == 0 else h["obj"].get(kb)
        return h["obj"][kb.decode("utf-8")]

    def check_view(h, opname, full=False):
        ls = listing(h)
        if len(ls) != len(set(ls)):
            viol("listing-has-duplicates", opname, h, f"{sorted(map(short, ls))}")
        if set(ls) != set(model):
            extra = sorted(map(short, set(ls) - set(model)))
            missing = sorted(map(short, set(model) - set(ls)))
            viol("listing-differs-from-successful-puts", opname, h, f"extra={extra} missing={missing}")
        ks = sorted(model) if full or len(model) <= 6 else sorted(model)[:3] + sorted(model)[-3:]
        for kb in ks:
            try:
                g = getter(h, kb)
            except Exception as e:  # noqa: BLE001
                if h["mode"] == "a" and h["type"] == "coll":
                    viol("listed-key-unreadable-in-writing-session", opname, h, f"get({short(kb)}) raised {e!r} although the key is listed")
                viol("listed-key-unreadable", opname, h, f"get({short(kb)}) raised {e!r}")
            if g != model[kb]:
                viol("get-returns-wrong-bytes", opname, h, f"get({short(kb)}) = {short(g)} expected {short(model[kb])}")

    def fresh_check(opname, h):
        """File state as a user can observe it: a throw-away read-only handle sees exactly the model and the header."""
        f = UKVFile(path, mode="r")
        try:
            ls = [bytes(k) for k in f.keys()]
            if set(ls) != set(model) or len(ls) != len(model):
                viol("file-differs-from-successful-puts", opname, h,
                     f"fresh reader lists extra={sorted(map(short, set(ls) - set(model)))} missing={sorted(map(short, set(model) - set(ls)))}")
            for kb, v in model.items():
                g = f.get(kb)
                if g != v:
                    viol("file-holds-wrong-bytes", opname, h, f"fresh reader get({short(kb)}) = {short(g)} expected {short(v)}")
            if (f.h1, f.h2, f.b0) != (exp_h1, h2, b0 or b""):
                viol("header-not-preserved", opname, h, f"h1={f.h1!r} h2={short(f.h2)} b0={short(f.b0)} expected {exp_h1!r} {short(h2)} {short(b0 or b'')}")
        finally:
            f.close()

    with storage_seams(kern):
        try:
            for op in plan["ops"]:
                o = op["op"]
                h = H[op["h"]]
                log.append(op)
                if o == "create":
                    if h["type"] == "ukv":
                        h["obj"] = UKVFile(path, mode=op["mode"], h1=h1, h2=h2, b0=b0)
                        h["open"], h["mode"] = True, "a"
                        h["last_mode"] = "a"
                    else:
                        h["obj"] = _mk_coll(path, False, h["cb"], comment=hdr["h2"], h1=h1, b0=b0, overwrite=(op["mode"] == "w"))
                        h["readonly"] = False
                    outcome_seq.append(("create", h["type"]))
                elif o == "new":
                    if h["type"] == "ukv":
                        h["obj"] = UKVFile(path, mode=op["mode"])
                        h["open"], h["mode"] = True, op["mode"]
                        h["last_mode"] = op["mode"]
                        check_view(h, "open")
                    else:
                        h["obj"] = _mk_coll(path, h["readonly"], h["cb"])
                    outcome_seq.append(("new", h["type"]))
                elif o == "clone":
                    src = h
                    dst = H[op["to"]]
                    if src["obj"] is None or src["open"] or dst["open"] or plan["handles"][op["h"]] != plan["handles"][op["to"]]:
                        continue
                    dst["obj"] = pickle.loads(pickle.dumps(src["obj"]))
                    dst["last_mode"] = src.get("last_mode")
                    res.stats["probe:clone_used"] += 1
                    outcome_seq.append(("clone", h["type"]))
                elif o == "open":
                    if h["obj"] is None:
                        continue
                    reads0 = kern.counters["read"]
                    if op["mode"] is None:
                        res.stats["probe:reopened_without_explicit_mode"] += 1
                        if reads0 % 2:
                            h["obj"].__enter__()
                        else:
                            h["obj"].open()
                    else:
                        h["obj"].open(op["mode"])
                    h["open"], h["mode"] = True, (op["mode"] or h.get("last_mode") or "a")
                    h["last_mode"] = h["mode"]
                    if appended_since[op["h"]]:
                        res.stats["probe:rescan_forced_by_other_handle"] += 1
                        stale_or_fail[0] = True
                    elif kern.counters["read"] - reads0 <= 1:
                        res.stats["probe:shortcut_taken"] += 1
                    appended_since[op["h"]] = 0
                    check_view(h, "open", full=True)
                    outcome_seq.append(("open", op["mode"] or "same"))
                elif o == "close":
                    if not h["open"]:
                        continue
                    h["obj"].close()
                    h["open"] = False
                    fresh_check("close", h)
                    outcome_seq.append(("close",))
                elif o == "begin":
                    if h["obj"] is None:
                        continue
                    cm = h["obj"].writing() if op["kind"] == "w" else h["obj"].reading()
                    cm.__enter__()
                    h["cm"], h["open"], h["mode"] = cm, True, ("a" if op["kind"] == "w" else "r")
                    if appended_since[op["h"]]:
                        res.stats["probe:rescan_forced_by_other_handle"] += 1
                        stale_or_fail[0] = True
                    appended_since[op["h"]] = 0
                    check_view(h, "begin", full=True)
                    outcome_seq.append(("begin", op["kind"]))
                elif o == "begin_w_readonly":
                    if h["obj"] is None:
                        continue
                    try:
                        with h["obj"].writing():
                            viol("readonly-handle-accepted-a-writing-session", "begin-writing-readonly", h, "writing() on a readonly Collection did not raise")
                    except _Stop:
                        raise
                    except (UnsupportedOperation, OSError):
                        res.stats["probe:readonly_write_rejected"] += 1
                        stale_or_fail[0] = True
                    fresh_check("begin-writing-readonly", h)
                    outcome_seq.append(("begin_w_readonly",))
                elif o == "abort":
                    if not h["open"]:
                        continue
                    h["open"] = False
                    exc_ = RuntimeError("caller's exception inside the writing session")
                    try:
                        swallowed = h["cm"].__exit__(RuntimeError, exc_, None)
                    except RuntimeError as e2:
                        swallowed = False
                        if e2 is not exc_:
                            viol("session-end-raises-without-cause", "abort", h, f"{e2!r}")
                    except Exception as e2:  # noqa: BLE001
                        if not (h.get("pending_dups") or h.get("pending_oversize")):
                            viol("session-end-raises-without-cause", "abort", h, f"{e2!r}")
                        swallowed = False
                    if swallowed:
                        viol("session-swallowed-the-callers-exception", "abort", h, "writing() suppressed the exception raised inside it")
                    h["pending_dups"] = []
                    h["pending_oversize"] = []
                    h["cm"] = None
                    res.stats["probe:session_left_by_callers_exception"] += 1
                    stale_or_fail[0] = True
                    if kern.fds_of(0, kind="file"):
                        viol("file-left-open-after-session", "abort", h, f"{[(kern.canon(f.path)) for f in kern.fds_of(0, kind='file')]}")
                    fresh_check("abort", h)
                    outcome_seq.append(("abort",))
                elif o == "end":
                    if not h["open"]:
                        continue
                    h["open"] = False
                    try:
                        h["cm"].__exit__(None, None, None)
                    except KeyError as e:
                        # a duplicate queued under a deferring buffer surfaces here; that is the failing operation
                        pend = h.get("pending_dups", [])
                        if not pend:
                            viol("session-end-raises-without-cause", "end", h, f"{e!r}")
                        res.stats["probe:deferred_failure_at_session_end"] += 1
                        stale_or_fail[0] = True
                    except Exception as e:  # noqa: BLE001
                        if not h.get("pending_oversize"):
                            viol("session-end-raises-without-cause", "end", h, f"{e!r}")
                        res.stats["probe:deferred_failure_at_session_end"] += 1
                        stale_or_fail[0] = True
                    h["pending_dups"] = []
                    h["pending_oversize"] = []
                    h["cm"] = None
                    if kern.fds_of(0, kind="file"):
                        viol("file-left-open-after-session", "end", h, f"{[(kern.canon(f.path)) for f in kern.fds_of(0, kind='file')]}")
                    fresh_check("end", h)
                    outcome_seq.append(("end",))
                elif o in ("put_closed", "get_closed"):
                    if h["obj"] is None or h["open"]:
                        continue
                    try:
                        if o == "put_closed":
                            h["obj"].put(key_bytes(op["k"]), b"xyz")
                        else:
                            h["obj"].get(key_bytes(op["k"]))
                        viol("closed-handle-accepted-an-operation", o, h, "no exception")
                    except _Stop:
                        raise
                    except (UnsupportedOperation, ValueError, KeyError):
                        res.stats["probe:closed_handle_rejected"] += 1
                        stale_or_fail[0] = True
                    fresh_check(o, h)
                    outcome_seq.append((o,))
                elif o == "put_readonly":
                    if not h["open"]:
                        continue
                    kb = key_bytes(op["k"])
                    try:
                        if h["type"] == "ukv":
                            h["obj"].put(kb, b"nope")
                        else:
                            if not h.get("readonly"):
                                continue  # writable collection inside reading(): misuse, outside the statement
                            h["obj"][kb.decode("utf-8")] = b"nope"
                        viol("readonly-handle-accepted-a-put", "put-readonly", h, f"put({short(kb)}) did not raise")
                    except _Stop:
                        raise
                    except (UnsupportedOperation, OSError):
                        res.stats["probe:readonly_write_rejected"] += 1
                        stale_or_fail[0] = True
                    check_view(h, "put-readonly")
                    outcome_seq.append(("put_readonly",))
                elif o == "put_badvalue":
                    if not h["open"] or h["mode"] != "a":
                        continue
                    if h["type"] == "coll" and h["cb"] > 0:
                        continue  # a deferring buffer queues the value unseen; the failure would surface at the flush (see put)
                    kb = key_bytes(op["k"])
                    bad = {"str": "text value", "empty_str": "", "none": None, "int": 7, "list": [1, 2]}[op["kind"]]
                    try:
                        if h["type"] == "ukv":
                            h["obj"].put(kb, bad)
                        else:
                            h["obj"][kb.decode("utf-8")] = bad
                        viol("non-bytes-value-accepted", "put-badvalue", h, f"put({short(kb)}, {bad!r}) did not raise")
                    except _Stop:
                        raise
                    except Exception:  # noqa: BLE001 - any exception is a refusal
                        res.stats["probe:badvalue_rejected"] += 1
                        stale_or_fail[0] = True
                    # a failing operation leaves the handle's view unchanged; the file is judged at the next close
                    check_view(h, "put-badvalue", full=True)
                    outcome_seq.append(("put_badvalue", op["kind"]))
                elif o == "put":
                    if not h["open"] or h["mode"] != "a":
                        continue
                    kb, vb = key_bytes(op["k"]), value_bytes(op["v"])
                    deferring = h["type"] == "coll" and h["cb"] > 0
                    should_fail = None
                    if kb in model or kb in [d for d in h.get("pending_dups", [])]:
                        should_fail = "dup"
                    elif len(kb) > 255:
                        should_fail = "oversize"
                    if len(kb) == 255:
                        res.stats["probe:key_255"] += 1
                    if isinstance(op["k"], list) and op["k"][0] == "U":
                        res.stats["probe:multibyte_key_oversize_in_bytes_only" if len(kb) > 255 else "probe:multibyte_key_stored"] += 1
                    if len(vb) + len(kb) + 5 > plan["bufsize"] >= 64:
                        res.stats["probe:direct_raw_write"] += 1
                    try:
                        if h["type"] == "ukv":
                            if len(log) % 4 == 0:
                                h["obj"][kb] = vb          # the mapping spelling of put
                            else:
                                h["obj"].put(kb, vb)
                        else:
                            h["obj"][kb.decode("utf-8")] = vb
                        raised = None
                    except Exception as e:  # noqa: BLE001
                        raised = e
                    if should_fail is None:
                        if raised is not None:
                            if deferring and (h.get("pending_dups") or h.get("pending_oversize")):
                                # an earlier queued bad key made the threshold flush fail; which puts of the queue
                                # count as successful is not defined by the statement -> stop this history here
                                res.stats["probe:deferred_failure_at_session_end"] += 1
                                raise _Stop()
                            viol("valid-put-raised", "put", h, f"put({short(kb)}, {len(vb)}B) raised {raised!r}")
                        model[kb] = vb
                        for j in range(len(H)):
                            if j != op["h"]:
                                appended_since[j] += 1
                        if deferring:
                            if getattr(getattr(h["obj"], "_backend", None), "_usedmem", None) == 0:
                                res.stats["probe:flush_by_bufsize_threshold"] += 1
                        if deferring and len(log) % 3:
                            # reading a queued key makes the collection store it: leave most puts QUEUED, so that later
                            # operations (a duplicate of a still-queued key, a listing, the session end) meet a non-empty queue
                            res.stats["probe:put_left_in_the_queue"] += 1
                        else:
                            if deferring:
                                res.stats["probe:queued_key_read_in_session"] += 1
                            check_view(h, "put")
                        outcome_seq.append(("put", "ok"))
                    else:
                        stale_or_fail[0] = True
                        if raised is None:
                            # A put that returns is a successful put - and a duplicate (or 256-byte) key cannot be one: the put
                            # itself has to refuse it, for every buffer size.  (Before fix 7e7e4af the tree deferred the
                            # refusal to a later flush under a deferring bufsize; the branch below, which followed such a
                            # deferred failure to its end, is kept for sensitivity runs against older trees: set
                            # VERIF_C02_ALLOW_DEFERRED=1.)
                            import os as _os

                            if deferring and _os.environ.get("VERIF_C02_ALLOW_DEFERRED"):
                                # legitimately deferred: the failure must surface at the flush (session end)
                                h.setdefault("pending_dups" if should_fail == "dup" else "pending_oversize", []).append(kb)
                                outcome_seq.append(("put", "deferred-" + should_fail))
                                surfaced = False
                                if should_fail == "dup" and len(log) % 2 == 0:
                                    # get(k) must still return the bytes of the one SUCCESSFUL put (or let the deferred
                                    # failure surface here) - never the refused value
                                    try:
                                        g = getter(h, kb)
                                    except KeyError:
                                        surfaced = True
                                        res.stats["probe:deferred_failure_at_session_end"] += 1
                                    else:
                                        res.stats["probe:read_after_deferred_dup"] += 1
                                        if g != model[kb]:
                                            viol("get-returns-wrong-bytes", "get-after-deferred-dup", h,
                                                 f"get({short(kb)}) = {short(g)} after a refused duplicate put; the stored value is {short(model[kb])}")
                                # More puts behind the queued bad item.  What the statement says about each of them is simple:
                                # a put that RETURNS is a successful put (its key must be stored - at the latest once this
                                # handle has completed its next writing session), a put that RAISES is a failed operation
                                # (nothing of it may appear), whichever queued item the exception was really about.
                                for j in (1, 2):
                                    k2 = f"after{len(log)}x{j}".encode()
                                    v2 = value_bytes([900 + j, 7 * j])
                                    try:
                                        h["obj"][k2.decode()] = v2
                                    except (KeyError, ValueError, Exception) as e2:  # noqa: BLE001
                                        surfaced = True
                                        res.stats["probe:put_raised_for_an_earlier_queued_item"] += 1
                                        refused_later.append(k2)
                                    else:
                                        model[k2] = v2
                                        for jj in range(len(H)):
                                            if jj != op["h"]:
                                                appended_since[jj] += 1
                                try:
                                    h["open"] = False
                                    h["cm"].__exit__(None, None, None)
                                    if not surfaced:
                                        viol(f"{should_fail}-key-put-never-failed", "put-" + should_fail, h,
                                             f"put({short(kb)}) and the session end both succeeded")
                                except _Stop:
                                    raise
                                except Exception:  # noqa: BLE001
                                    res.stats["probe:deferred_failure_at_session_end"] += 1
                                    # let the handle store what it accepted but could not write before the failure
                                    try:
                                        with h["obj"].writing():
                                            pass
                                    except Exception:  # noqa: BLE001
                                        try:
                                            with h["obj"].writing():
                                                pass
                                        except Exception as e3:  # noqa: BLE001
                                            viol("handle-unusable-after-failed-session-end", "end-after-deferred-" + should_fail, h, f"{e3!r}")
                                h["cm"] = None
                                h["pending_dups"] = []
                                h["pending_oversize"] = []
                                if kern.fds_of(0, kind="file"):
                                    viol("file-left-open-after-session", "end", h, "descriptor still open after a failing session end")
                                fresh_check("end-after-deferred-" + should_fail, h)
                                continue
                            viol(f"{should_fail}-key-put-accepted", "put-" + should_fail, h, f"put({short(kb)}) did not raise")
                        res.stats["probe:dup_rejected" if should_fail == "dup" else "probe:key_256_rejected"] += 1
                        if should_fail == "oversize":
                            res.stats["probe:rescan_after_failed_put"] += 1
                        # a failing operation leaves the handle's view unchanged ...
                        check_view(h, "put-" + should_fail, full=True)
                        outcome_seq.append(("put", should_fail))
                elif o == "get":
                    if not h["open"]:
                        continue
                    kb = key_bytes(op["k"])
                    try:
                        g = getter(h, kb)
                        raised = None
                    except Exception as e:  # noqa: BLE001
                        raised = e
                    if kb in model:
                        if raised is not None:
                            cl = "listed-key-unreadable-in-writing-session" if (h["mode"] == "a" and h["type"] == "coll") else "get-raised-for-stored-key"
                            viol(cl, "get", h, f"get({short(kb)}) raised {raised!r}")
                        if g != model[kb]:
                            viol("get-returns-wrong-bytes", "get", h, f"get({short(kb)}) = {short(g)} expected {short(model[kb])}")
                        outcome_seq.append(("get", "hit"))
                    else:
                        if raised is None:
                            viol("get-returns-value-for-absent-key", "get", h, f"get({short(kb)}) = {short(g)} but no put stored it")
                        outcome_seq.append(("get", "miss"))
                elif o == "keys":
                    if not h["open"]:
                        continue
                    check_view(h, "keys", full=True)
                    outcome_seq.append(("keys",))
                elif o == "x_existing":
                    try:
                        f2 = UKVFile(path, mode="x", h1=b"OTHER", h2=b"other comment")
                    except FileExistsError:
                        res.stats["probe:create_existing_rejected"] += 1
                        stale_or_fail[0] = True
                    else:
                        f2.close()
                        viol("exclusive-creation-of-existing-file-accepted", "x-existing", h, "UKVFile(path, mode='x') on an existing library did not raise")
                    fresh_check("x-existing", h)
                    outcome_seq.append(("x_existing",))
                elif o == "flush":
                    if not h["open"] or h["type"] != "coll" or h["mode"] != "a":
                        continue
                    # an explicit flush inside a writing session stores what is queued; nothing else changes
                    h["obj"].flush()
                    # (peeking at the queue is a courtesy: where the attribute does not exist nothing is concluded)
                    left_ = getattr(getattr(h["obj"], "_backend", None), "_write_queue", None)
                    if left_:
                        viol("flush-left-items-queued", "flush", h, f"{len(left_)} items still queued")
                    res.stats["probe:explicit_flush"] += 1
                    check_view(h, "flush", full=True)
                    outcome_seq.append(("flush",))
                elif o in ("values", "iter"):
                    if not h["open"]:
                        continue
                    obj = h["obj"]
                    if o == "iter":
                        ks = list(obj.keys()) if h["type"] == "ukv" else list(iter(obj))
                        ks = [(k if isinstance(k, bytes) else k.encode("utf-8")) for k in ks]
                        if sorted(ks) != sorted(model):
                            viol("iteration-disagrees-with-puts", "iter", h, f"{len(ks)} keys vs {len(model)} in the model")
                    else:
                        vals = list(obj.values())
                        if sorted(vals) != sorted(model.values()):
                            viol("values-disagree-with-puts", "values", h, f"{len(vals)} values vs {len(model)} in the model")
                    outcome_seq.append((o,))
                elif o in ("contains", "len", "items"):
                    if not h["open"]:
                        continue
                    obj = h["obj"]
                    kb = key_bytes(op["k"])
                    if o == "contains":
                        got = (kb in obj.keys()) if h["type"] == "ukv" else (kb.decode("utf-8") in obj)
                        if got != (kb in model):
                            viol("contains-disagrees-with-puts", "contains", h, f"{short(kb)} in handle = {got}")
                    elif o == "len":
                        n = len(obj.keys()) if h["type"] == "ukv" else len(obj)
                        if n != len(model):
                            viol("len-disagrees-with-puts", "len", h, f"len = {n} expected {len(model)}")
                    else:
                        if h["type"] == "coll" and h["mode"] == "a" and h["cb"] > 0:
                            continue  # covered by check_view (queued keys) - items() would repeat it
                        items = dict(obj.items())
                        items = {(k if isinstance(k, bytes) else k.encode("utf-8")): v for k, v in items.items()}
                        if items != model:
                            viol("items-disagree-with-puts", "items", h, f"{len(items)} items vs {len(model)} in the model")
                    outcome_seq.append((o,))
        except _Stop:
            pass
        except K.SimLimit as e:
            res.violate("operation-does-not-terminate", "C02|hang", f"{e} at step {len(log)}: {log[-1]}")
        except K.HarnessError:
            raise
        except Exception as e:  # noqa: BLE001 - every expected failure is handled at its step; anything else is the code's
            o = log[-1]
            hh = H[o["h"]]
            res.violate("operation-raised-unexpectedly", f"C02|operation-raised-unexpectedly|op={o['op']}|{cfgname(hh)}|{type(e).__name__}",
                        f"step {len(log)} {o['op']} on handle {o['h']} ({cfgname(hh)}) raised {e!r}")
        if kern.counters["seam:open"] == 0:
            raise K.HarnessError("SEAM-LOST seam:open (C02)")
        # final: whatever is open gets closed, then a fresh reader must agree with the model
        if not res.violations:
            try:
                for h in H:
                    if h["open"]:
                        if h["type"] == "ukv":
                            h["obj"].close()
                        else:
                            h["cm"].__exit__(None, None, None)
                        h["open"] = False
                fresh_check("final", H[0])
            except _Stop:
                pass
        # never leave a half-open session behind: its generator would be finalised after the seams are gone
        for h in H:
            if h["cm"] is not None:
                try:
                    h["cm"].__exit__(None, None, None)
                except BaseException:  # noqa: BLE001
                    pass
                h["cm"] = None
            elif h["open"] and h["type"] == "ukv":
                try:
                    h["obj"].close()
                except BaseException:  # noqa: BLE001
                    pass
    nops = len(plan["ops"])
    if nops <= 7:
        res.stats["probe:history_len_le_6"] += 1
    res.stats["ops"] += nops
    for k in ("open", "read", "write", "close", "seek_end", "truncate"):
        res.stats["ev:" + k] += kern.counters[k]
    if stale_or_fail[0]:
        res.keys.append(digest(outcome_seq) + cfgname(H[0]) + str(len(H)))
    # (the number of kernel events is not part of the digest: Collection.items() walks a set of str keys, so the
    #  order - and with it the count - of raw reads is a function of the interpreter's string hashing, not of the plan)
    res.digest = digest((outcome_seq, sorted(model), [(v["signature"], v["detail"]) for v in res.violations]))
    res.sample = {"handles": [cfgname(h) for h in H], "bufsize": plan["bufsize"],
                  "ops": [(o["op"], o["h"]) + ((short(key_bytes(o["k"]), 12),) if "k" in o else ()) for o in plan["ops"]][:25]}
    if trace:
        res.trace = [f"handles: {[cfgname(h) for h in H]} raw bufsize={plan['bufsize']} header={plan['header']}"]
        for i, o in enumerate(log):
            d = dict(o)
            if "k" in d:
                d["k"] = short(key_bytes(d["k"]), 16)
            res.trace.append(f"step {i + 1}: {d}")
        for v in res.violations[:4]:
            res.trace.append(f"VIOLATED {v['clause']}: {v['detail']}")
    return res


# ---------------------------------------------------------------------------- shrinking
def shrink_candidates(plan):
    ops = plan["ops"]
    n = len(ops)
    # drop suffixes first (the failing step is usually the last executed one), then single ops
    for cut in (n // 2, n - 1):
        if 1 <= cut < n:
            p = copy.deepcopy(plan)
            p["ops"] = p["ops"][:cut]
            yield p
    for i in range(n - 1, 0, -1):
        p = copy.deepcopy(plan)
        del p["ops"][i]
        yield p
    for i, o in enumerate(ops):
        if "v" in o and o["v"][1] > 1:
            for m in (0, 1, o["v"][1] // 2):
                if m < o["v"][1]:
                    p = copy.deepcopy(plan)
                    p["ops"][i]["v"][1] = m
                    yield p
        if "v" in o and len(o["v"]) > 2 and o["v"][2] == "hdr":
            p = copy.deepcopy(plan)
            p["ops"][i]["v"][2] = "txt"
            yield p
    if plan["bufsize"] != 8192:
        p = copy.deepcopy(plan)
        p["bufsize"] = 8192
        yield p
    hd = plan["header"]
    if hd["h1"] or hd["h2"] or hd["b0len"]:
        p = copy.deepcopy(plan)
        p["header"] = {"h1": None, "h2": "", "b0len": 0}
        yield p
