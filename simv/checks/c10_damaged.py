"""C10 - damaged or truncated input is rejected, never returned as a partial molecule.

The readers pull lines from a stream; the simulator owns that stream (FaultyLineStream)
and injects the faults of a text channel: end of data at every line boundary and at
every byte of the last record of each molecule block (exhaustive per file), and seeded
single structural faults (dropped line, duplicated line, corrupted numeric / count / tag
token), optionally followed by an end of data.  Whatever the entry point returns must be
a prefix of the molecules of the undamaged text, each complete and unchanged.
"""
from __future__ import annotations

import copy
import io
import os
import random
import re
import warnings

from ..core.engine import RunResult
from ..core.kernel import HarnessError
from ..core.rng import digest
from ..stubs.linestream import FaultyLineStream, StreamOveruse, apply_faults

ID = "C10"
CHECK = "c10_damaged"
LEVEL = "fault_enumeration"
RULE = (
    "A case is one damaged text handed to one entry point (Molecule/Structure/CartesianGeometry loads_all_*, load_all_*(stream), "
    "yield_from_*(stream), ConformerEnsemble.loads_*), delivered as a string or through the FaultyLineStream channel. Inputs: the "
    "bundled non-emptied mol2/xyz files up to 13 kB plus multi-molecule files written by molli itself (different molecules, "
    "0-atom and bond-less molecules, multi-frame xyz). Truncation: for every (file, entry) ALL line boundaries and ALL byte offsets "
    "inside the last line of every molecule block are evaluated (run indices below the enumeration size walk them deterministically); "
    "remaining runs draw one structural fault per case - drop_line, dup_line, or corruption of a field a reader can check (numeric "
    "coordinate/charge/bond-endpoint -> non-numeric, record count +-1, damaged @<TRIPOS> tag) - optionally followed by an end of data. "
    "Not generated because no reader could detect them: number -> other well-formed number, line swaps, two faults that can cancel. "
    "distinct_nontrivial counts distinct (file, entry, damaged-text digest) triples whose damaged text differs from the original."
)
ASSUMPTIONS = [
    "The oracle 'same content as the corresponding molecule of the undamaged file' compares name, atom order, element, label, type, geometry, coordinates, partial charges and the bond list (endpoints, type) with the parse of the undamaged text by the same entry point.",
    "For generator entry points every molecule yielded before an exception counts as returned.",
    "Termination is decided deterministically, without a clock: a delivery cap on the channel (4 x lines + 64 reads) for a reader that keeps pulling, and a step budget (20000 + 600 x lines loop iterations, counted as sys.monitoring JUMP/BRANCH events inside molli.parsing.*; an undamaged corpus file needs < 1 % of it) for a reader that spins without reading. Loops outside molli.parsing (the loaders in molli.chem) are not counted; a spin there would be stopped by the worker's wall-clock watchdog and reported as a harness error.",
]
REAL_VS_STUB = {
    "real": ["molli.parsing.read_mol2 / read_xyz / LineReader", "Structure.yield_from_mol2, CartesianGeometry.yield_from_xyz and the load*/loads* wrappers",
             "ConformerEnsemble.load_mol2/load_xyz"],
    "stub": ["input text stream (FaultyLineStream)"],
}
FAULT_PROBES = {"eof_at_line_boundary": "eof_at_line_boundary", "eof_inside_line": "eof_inside_line_mid", "eof_inside_final_token": "eof_inside_final_token",
                "eof_at_molecule_boundary": "eof_at_molecule_boundary", "drop_line": "drop_line", "dup_line": "dup_line", "corrupt_numeric": "corrupt_numeric",
                "corrupt_count": "corrupt_count", "corrupt_tag": "corrupt_tag", "corrupt_byte_invalid_utf8": "corrupt_byte"}
# A share of the plans (the complete truncation enumeration first) is also executed by fresh interpreters started with
# `python -O`: input validation written as `assert` disappears there, and a reader must reject damaged input under every
# legal way of starting the interpreter.
INTERP_VARIANTS = [{"flags": ["-O"], "runs": {"quick": 360, "thorough": 6000},
                    "what": "python -O (assert statements stripped from the readers)"}]
PROBES = ["eof_inside_attribute_record", "eof_at_line_boundary", "eof_inside_final_token", "eof_inside_line_mid", "eof_at_molecule_boundary", "drop_line", "dup_line",
          "corrupt_numeric", "corrupt_count", "corrupt_tag", "corrupt_byte", "path_entry_used", "rejected_with_exception", "returned_strict_prefix", "returned_all_unchanged",
          "stream_channel_used", "generator_entry_partial_then_exception"]

MAX_FILE = 13000
PART = 160   # truncation offsets per plan


def budget(tier):
    if tier == "quick":
        return {"runs": 12000, "chunk": 40, "wall_cap": 400.0, "det_sample": 6}
    return {"runs": 600000, "chunk": 100, "wall_cap": 3300.0, "det_sample": 30}


# ---------------------------------------------------------------------------- corpus
_CORPUS = None
_ENUM = None


def _build_generated():
    import molli as ml

    def mk(name, elems, coords, bonds):
        m = ml.Molecule(n_atoms=len(elems), name=name)
        for a, e in zip(m.atoms, elems):
            a.element = ml.Element[e]
        if elems:
            m.coords[:] = coords
        for i, j in bonds:
            m.connect(m.atoms[i], m.atoms[j])
        return m

    water = mk("water", ["O", "H", "H"], [[0, 0, 0.117], [0, 0.757, -0.469], [0, -0.757, -0.469]], [(0, 1), (0, 2)])
    hcl = mk("hcl", ["H", "Cl"], [[0, 0, 0], [0, 0, 1.275]], [(0, 1)])
    ne = mk("neon", ["Ne"], [[1.5, -2.25, 3.125]], [])
    empty = mk("nothing", [], [], [])
    ethane = mk("ethane", ["C", "C", "H", "H", "H", "H", "H", "H"],
                [[0, 0, 0.762], [0, 0, -0.762], [1.018, 0, 1.157], [-0.509, 0.882, 1.157], [-0.509, -0.882, 1.157],
                 [-1.018, 0, -1.157], [0.509, -0.882, -1.157], [0.509, 0.882, -1.157]],
                [(0, 1), (0, 2), (0, 3), (0, 4), (1, 5), (1, 6), (1, 7)])
    w2 = ml.Molecule(water, name="water")
    w2.coords[:] = w2.coords * 1.01 + 0.25
    w3 = ml.Molecule(water, name="water")
    w3.coords[:] = w3.coords * 0.99 - 0.125
    out = {}
    out["gen_mixed.mol2"] = ("mol2", "".join(m.dumps_mol2() for m in (water, ethane, hcl)))
    out["gen_edge.mol2"] = ("mol2", "".join(m.dumps_mol2() for m in (ne, water, empty, hcl)))
    out["gen_confs.mol2"] = ("mol2", "".join(m.dumps_mol2() for m in (water, w2, w3)))
    # record types molli does not implement are legal anywhere in a block: before ATOM, between ATOM and BOND, at the end
    def with_extra(m, where):
        lines = m.dumps_mol2().splitlines()
        ia = lines.index("@<TRIPOS>ATOM")
        ib = lines.index("@<TRIPOS>BOND")
        extra = ["@<TRIPOS>COMMENT", "written by an external conformer generator", "second comment line"]
        sub = ["@<TRIPOS>SUBSTRUCTURE", "     1 UNL1        1 GROUP             0 ****  ****    0  "]
        if where == "before_atom":
            lines = lines[:ia] + extra + lines[ia:]
        elif where == "between":
            lines = lines[:ib] + sub + lines[ib:]
        else:
            lines = lines + sub + extra
        return "\n".join(lines) + "\n"

    out["gen_extra_blocks.mol2"] = ("mol2", with_extra(water, "before_atom") + with_extra(ethane, "between") + with_extra(hcl, "end"))
    out["gen_confs_comment.mol2"] = ("mol2", "".join(with_extra(m, "before_atom") for m in (water, w2, w3)))
    # attribute blocks (formal charges, free-form atom / bond attributes) AFTER the bond block, i.e. as the last records of
    # their molecule: the only thing that ends such a block is the next @<TRIPOS> tag
    def nocomment(text):
        # (the attribute loops of the reader do not skip comment lines: the next block starts right at its MOLECULE tag)
        return "".join(ln for ln in text.splitlines(keepends=True) if not ln.startswith("#"))

    def with_unity(m, atom_attrs, bond_attrs):
        lines = nocomment(m.dumps_mol2()).splitlines()
        if atom_attrs:
            lines.append("@<TRIPOS>UNITY_ATOM_ATTR")
            for idx, kv in atom_attrs:
                lines.append(f"{idx} {len(kv)}")
                lines += [f"{k} {v}" for k, v in kv]
        if bond_attrs:
            lines.append("@<TRIPOS>UNITY_BOND_ATTR")
            for idx, kv in bond_attrs:
                lines.append(f"{idx} {len(kv)}")
                lines += [f"{k} {v}" for k, v in kv]
        return "\n".join(lines) + "\n"

    out["gen_unity_last.mol2"] = ("mol2", with_unity(water, [(1, [("charge", "-1")]), (2, [("charge", "1"), ("origin", "fitted")])], [])
                                  + with_unity(ethane, [(1, [("charge", "1")])], [(1, [("kind", "rotor")]), (3, [("kind", "stiff"), ("w", "0.5")])])
                                  + nocomment(hcl.dumps_mol2()))
    # the order of the blocks of a molecule is free, and a molecule without bonds need not carry a BOND tag: files in which the
    # ATOM block is the LAST block of its molecule
    def bond_first(m):
        lines = m.dumps_mol2().splitlines()
        ia, ib = lines.index("@<TRIPOS>ATOM"), lines.index("@<TRIPOS>BOND")
        return "\n".join(lines[:ia] + lines[ib:] + lines[ia:ib]) + "\n"

    # (with partial charges that are not zero: a reader that makes up a charge for a record that lost its charge column
    #  returns something else than the undamaged file holds)
    import numpy as _np

    wq = ml.Molecule(water, name="water_q")
    wq.atomic_charges = _np.array([-0.834, 0.417, 0.417])
    hq = ml.Molecule(hcl, name="hcl_q")
    hq.atomic_charges = _np.array([0.188, -0.188])
    out["gen_bond_first.mol2"] = ("mol2", bond_first(water) + bond_first(ethane) + hcl.dumps_mol2() + bond_first(wq) + bond_first(hq))
    ne2 = mk("neon2", ["Ne"], [[-0.5, 4.75, 2.0]], [])
    ne2.atomic_charges = _np.array([1.125])
    out["gen_no_bond_tag.mol2"] = ("mol2", ne.dumps_mol2().replace("@<TRIPOS>BOND\n", "") + water.dumps_mol2() + ne2.dumps_mol2().replace("@<TRIPOS>BOND\n", ""))
    # a header without the (optional) blank status line: the charge-type line is directly followed by the ATOM tag
    def compact_header(m):
        lines = nocomment(m.dumps_mol2()).splitlines()
        ia = lines.index("@<TRIPOS>ATOM")
        while lines[ia - 1].strip() == "":
            del lines[ia - 1]
            ia -= 1
        return "\n".join(lines) + "\n"

    out["gen_compact_header.mol2"] = ("mol2", compact_header(wq) + compact_header(hq) + compact_header(wq))

    # trajectory-style xyz: the comment line of every frame starts with numbers ("<frame no> <energy>")
    def traj(ms):
        out_ = []
        for k_, m_ in enumerate(ms):
            ls = m_.dumps_xyz().splitlines()
            ls[1] = f"{k_} {-76.4 - 0.125 * k_:.6f}"
            out_.append("\n".join(ls) + "\n")
        return "".join(out_)

    out["gen_traj.xyz"] = ("xyz", traj([water, hcl, w2, hcl, w3, ne]))
    out["gen_mixed.xyz"] = ("xyz", "".join(m.dumps_xyz() for m in (water, ethane, hcl)))
    out["gen_edge.xyz"] = ("xyz", "".join(m.dumps_xyz() for m in (ne, water, hcl)))
    out["gen_confs.xyz"] = ("xyz", "".join(m.dumps_xyz() for m in (water, w2, w3)))
    return out


def corpus():
    global _CORPUS
    if _CORPUS is None:
        import molli as ml

        d = os.path.dirname(ml.files.__file__)
        c = {}
        for fn in sorted(os.listdir(d)):
            p = os.path.join(d, fn)
            if fn.endswith((".mol2", ".xyz")) and 0 < os.path.getsize(p) <= MAX_FILE:
                with open(p) as f:
                    c[fn] = ("mol2" if fn.endswith(".mol2") else "xyz", f.read())
        c.update(_build_generated())
        _CORPUS = c
    return _CORPUS


ENTRIES = {
    "mol2": ["mol.loads_all", "mol.load_all@stream", "mol.yield@stream", "struct.loads_all", "ens.loads", "mol.load_all@path"],
    "xyz": ["geom.loads_all", "mol.load_all@stream", "mol.yield@stream", "ens.loads", "mol.load_all@path"],
}


def _is_conformer_file(name):
    return "confs" in name or name in ("dummy.mol2", "dummy.xyz")


def entries_for(name, fmt):
    es = list(ENTRIES[fmt])
    if not _is_conformer_file(name) and len(_ref_cache(name, "mol.loads_all" if fmt == "mol2" else "geom.loads_all")[1]) > 1:
        es.remove("ens.loads")  # an ensemble needs identical constitution in all blocks
    return es


# ---------------------------------------------------------------------------- termination: a deterministic step budget
class StepBudget(BaseException):
    """The readers executed more loop iterations than any parse of a text of this size can need."""


_BUDGET = {"installed": False, "n": 0, "limit": 1 << 62, "tool": 3}


def _install_budget():
    """Loop iterations (JUMP / BRANCH events of sys.monitoring) are counted inside the parsing modules only.  A reader
    that spins - with or without pulling lines from its stream - runs into the budget after a number of steps that is a
    function of the input alone; no clock is involved, so the verdict replays."""
    import sys
    import types

    if _BUDGET["installed"]:
        return
    import molli.parsing._reader as m1
    import molli.parsing.mol2 as m2
    import molli.parsing.xyz as m3

    mon = sys.monitoring
    T = _BUDGET["tool"]
    mon.use_tool_id(T, "c10-step-budget")

    def cb(code, off, dest):
        _BUDGET["n"] += 1
        if _BUDGET["n"] > _BUDGET["limit"]:
            raise StepBudget(f"more than {_BUDGET['limit']} loop iterations inside the readers")

    mon.register_callback(T, mon.events.JUMP, cb)
    mon.register_callback(T, mon.events.BRANCH, cb)
    seen = set()

    def walk(code):
        if code in seen:
            return
        seen.add(code)
        mon.set_local_events(T, code, mon.events.JUMP | mon.events.BRANCH)
        for c in code.co_consts:
            if isinstance(c, types.CodeType):
                walk(c)

    for mod in (m1, m2, m3):
        for obj in vars(mod).values():
            if getattr(obj, "__module__", None) != mod.__name__:
                continue
            if isinstance(obj, types.FunctionType):
                walk(obj.__code__)
            elif isinstance(obj, type):
                for v in vars(obj).values():
                    f = getattr(v, "__func__", v)
                    if isinstance(f, types.FunctionType):
                        walk(f.__code__)
                    elif isinstance(v, property):
                        for g in (v.fget, v.fset):
                            if isinstance(g, types.FunctionType):
                                walk(g.__code__)
    _BUDGET["installed"] = True
    _BUDGET["codes"] = len(seen)


def _call(fmt, entry, text):
    """Returns (molecule signatures returned, exception or None, stream stats)."""
    _install_budget()
    _BUDGET["n"] = 0
    _BUDGET["limit"] = 20000 + 600 * (text.count("\n") + 1)
    try:
        return _call_inner(fmt, entry, text)
    except StepBudget as e:
        return [], e, None
    finally:
        _BUDGET["limit"] = 1 << 62


def _call_inner(fmt, entry, text):
    import molli as ml

    got = []
    st = None
    with warnings.catch_warnings():
        warnings.simplefilter("ignore")
        try:
            if fmt == "mol2":
                if entry == "mol.loads_all":
                    got = [_sig(m) for m in ml.Molecule.loads_all_mol2(text)]
                elif entry == "struct.loads_all":
                    got = [_sig(m) for m in ml.Structure.loads_all_mol2(text)]
                elif entry == "mol.load_all@stream":
                    st = FaultyLineStream(text)
                    got = [_sig(m) for m in ml.Molecule.load_all_mol2(st)]
                elif entry == "mol.yield@stream":
                    st = FaultyLineStream(text)
                    for m in ml.Molecule.yield_from_mol2(st):
                        got.append(_sig(m))
                elif entry == "ens.loads":
                    got = _ens_sigs(ml.ConformerEnsemble.loads_mol2(text))
                elif entry == "mol.load_all@path":
                    got = [_sig(m) for m in ml.Molecule.load_all_mol2(_as_file(text, ".mol2"))]
                else:
                    raise HarnessError(f"unknown entry {entry}")
            else:
                if entry == "geom.loads_all":
                    got = [_sig(m) for m in ml.CartesianGeometry.loads_all_xyz(text)]
                elif entry == "mol.load_all@stream":
                    st = FaultyLineStream(text)
                    got = [_sig(m) for m in ml.Molecule.load_all_xyz(st)]
                elif entry == "mol.yield@stream":
                    st = FaultyLineStream(text)
                    for m in ml.Molecule.yield_from_xyz(st):
                        got.append(_sig(m))
                elif entry == "ens.loads":
                    got = _ens_sigs(ml.ConformerEnsemble.loads_xyz(text))
                elif entry == "mol.load_all@path":
                    got = [_sig(m) for m in ml.Molecule.load_all_xyz(_as_file(text, ".xyz"))]
                else:
                    raise HarnessError(f"unknown entry {entry}")
        except HarnessError:
            raise
        except StreamOveruse as e:
            return got, e, st
        except RecursionError as e:
            return got, e, st
        except Exception as e:  # noqa: BLE001 - rejecting damaged input with any exception is the allowed outcome
            return got, e, st
    return got, None, st


def _as_file(text, ext):
    """The damaged text as a real file (the loaders open paths themselves).  A byte that is not valid UTF-8 travels through
    the str-level fault machinery as a lone surrogate and is written out as the raw byte."""
    from ..core import env

    p = os.path.join(env.SANDBOX, f"c10-{os.getpid()}{ext}")
    with open(p, "wb") as f:
        f.write(text.encode("utf-8", "surrogateescape"))
    return p


def _f(x):
    return tuple(float(v) for v in x)


def _sig(m):
    atoms = []
    ch = getattr(m, "atomic_charges", None)
    for i, a in enumerate(m.atoms):
        atoms.append((a.element.z, a.label, str(a.atype), str(a.geom), _f(m.coords[i]), None if ch is None else float(ch[i]),
                      getattr(a, "formal_charge", None), tuple(sorted((str(k), str(v)) for k, v in (getattr(a, "attrib", None) or {}).items()))))
    bonds = []
    if hasattr(m, "bonds"):
        idx = {a: i for i, a in enumerate(m.atoms)}
        for b in m.bonds:
            bonds.append((idx[b.a1], idx[b.a2], str(b.btype), float(b.order) if hasattr(b, "order") else None,
                          tuple(sorted((str(k), str(v)) for k, v in (getattr(b, "attrib", None) or {}).items()))))
    return (getattr(m, "name", None), tuple(atoms), tuple(bonds))


def _ens_sigs(ens):
    out = []
    idx = {a: i for i, a in enumerate(ens.atoms)}
    bonds = tuple((idx[b.a1], idx[b.a2], str(b.btype), float(b.order)) for b in ens.bonds)
    for c in range(ens.n_conformers):
        atoms = tuple((a.element.z, a.label, str(a.atype), str(a.geom), _f(ens.coords[c][i]), float(ens.atomic_charges[c][i]))
                      for i, a in enumerate(ens.atoms))
        out.append((ens.name, atoms, bonds))
    return out


def _core(sig):
    """A molecule signature without the OPTIONAL content (formal charges and free-form atom / bond attributes, which live in
    blocks of their own that no count announces)."""
    name, atoms, bonds = sig
    return (name, tuple(a[:6] for a in atoms), tuple(b[:4] for b in bonds))


_REF = {}
_REF_FAILED = set()


def _ref_cache(name, entry):
    key = (name, entry)
    if key not in _REF:
        fmt, text = corpus()[name]
        got, exc, _ = _call(fmt, entry, text)
        _REF[key] = (exc, got)
    return _REF[key]


# ---------------------------------------------------------------------------- structure of a file
def _annotate(fmt, text):
    """Per line: (start offset, end offset, section, is_last_of_block)."""
    lines = text.splitlines(keepends=True)
    ann = []
    pos = 0
    if fmt == "mol2":
        sec = "PRE"
        unity_left = 0
        blocks_last = set()
        last_content = None
        for i, ln in enumerate(lines):
            s = ln.strip()
            m = re.match(r"@<TRIPOS>([A-Z_]+)", s)
            if m:
                if m[1] == "MOLECULE" and last_content is not None:
                    blocks_last.add(last_content)
                sec = m[1]
                unity_left = 0
                kind = "tag:" + sec
            elif sec == "MOLECULE":
                kind = "header"
            elif sec.startswith("UNITY_") and s and not s.startswith("#"):
                # attribute blocks are sequences of records: "<index> <n>" followed by n "<name> <value>" lines
                if unity_left <= 0:
                    kind = sec + ":rec"
                    try:
                        unity_left = int(s.split()[1])
                    except (IndexError, ValueError):
                        unity_left = 0
                else:
                    kind = sec + ":attr"
                    unity_left -= 1
            else:
                kind = sec
            if s and not s.startswith("#"):
                last_content = i
            ann.append([pos, pos + len(ln), kind, False])
            pos += len(ln)
        if last_content is not None:
            blocks_last.add(last_content)
        for i in blocks_last:
            ann[i][3] = True
    else:
        i = 0
        n = len(lines)
        kinds = ["?"] * n
        last = set()
        while i < n:
            try:
                na = int(lines[i])
            except ValueError:
                break
            kinds[i] = "count"
            if i + 1 < n:
                kinds[i + 1] = "comment"
            for j in range(i + 2, min(n, i + 2 + na)):
                kinds[j] = "atom"
            last.add(min(n - 1, i + 1 + na))
            i += 2 + na
        for i, ln in enumerate(lines):
            ann.append([pos, pos + len(ln), kinds[i], i in last])
            pos += len(ln)
    return lines, ann


_TRUNC = {}


def trunc_offsets(name):
    if name not in _TRUNC:
        fmt, text = corpus()[name]
        lines, ann = _annotate(fmt, text)
        offs = {0, len(text)}
        for (s, e, kind, is_last) in ann:
            offs.add(s)
            offs.add(e)
            if is_last or kind.endswith((":rec", ":attr")):
                offs.update(range(s, e + 1))
        offs.discard(len(text))  # the complete file is not a damaged input
        _TRUNC[name] = sorted(offs)
    return _TRUNC[name]


def enumeration():
    """Deterministic list of (file, entry, part, parts) walking every truncation point of every (file, entry)."""
    global _ENUM
    if _ENUM is None:
        out = []
        for name, (fmt, text) in sorted(corpus().items()):
            offs = trunc_offsets(name)
            parts = max(1, (len(offs) + PART - 1) // PART)
            for entry in entries_for(name, fmt):
                for p in range(parts):
                    out.append((name, entry, p, parts))
        # interleave so that a quick run covering a prefix still touches every file
        out.sort(key=lambda t: (t[2], t[0], t[1]))
        _ENUM = out
    return _ENUM


def _eof_class(fmt, text, lines, ann, b):
    """Class of a cut at byte b: where it falls in the line structure."""
    if b >= len(text):
        return "complete", "-"
    for li, (s, e, kind, is_last) in enumerate(ann):
        if s <= b < e:
            break
    else:
        return "line-boundary", "end"
    if b == s:
        prev_last = li > 0 and ann[li - 1][3]
        return ("molecule-boundary" if prev_last or kind in ("tag:MOLECULE", "count") and li > 0 and ann[li - 1][3] else "line-boundary"), kind
    full = lines[li]
    part = full[: b - s]
    ft, pt = full.split(), part.split()
    if not pt:
        return "inside-line-leading-space", kind
    if len(pt) == len(ft) and not part[-1].isspace():
        if pt[-1] == ft[-1]:
            return "line-complete-without-terminator", kind
        return "inside-final-token", kind
    return f"inside-line-after-{len(pt) - (0 if part[-1].isspace() else 1)}-fields", kind


# ---------------------------------------------------------------------------- plans
_BAD_NUM = ["x7", "1.2.3", "--1", "1e", "0x1f", "nanx", "O"]


def gen_plan(r, tier, index):
    enum = enumeration()
    if index < len(enum):
        name, entry, p, parts = enum[index]
        return {"check": CHECK, "mode": "trunc", "file": name, "entry": entry, "part": p, "parts": parts}
    c = corpus()
    names = sorted(c)
    cases = []
    for _ in range(24):
        name = r.choice(names)
        fmt, text = c[name]
        lines, ann = _annotate(fmt, text)
        entry = r.choice(entries_for(name, fmt))
        li = r.randrange(len(lines))
        kind = ann[li][2]
        k = r.random()
        if k < 0.3:
            f = {"kind": "drop_line", "line": li}
        elif k < 0.55:
            f = {"kind": "dup_line", "line": li}
        else:
            f = _gen_corrupt(r, fmt, lines, ann)
            if f is None:
                f = {"kind": "drop_line", "line": li}
        faults = [f]
        if f.get("entry"):
            entry = f["entry"]
        if f["kind"] != "dup_line" and f.get("what") != "count" and r.random() < 0.3:
            # ... followed by an end of data at a LINE BOUNDARY AFTER the damaged line.  (A cut inside a token is the
            # truncation enumeration's business; dup_line + eof and count-1 + eof can cancel - a duplicated atom line, or a
            # count lowered by one, plus the loss of the block's last line is a well-formed file - and are not generated.)
            dmg = apply_faults(text, faults)
            dl = dmg.splitlines(keepends=True)
            first = f["line"] + 1
            if first < len(dl):
                cut_line = r.randrange(first, len(dl))
                faults.append({"kind": "eof", "at": sum(len(x) for x in dl[:cut_line + 1])})
        cases.append({"file": name, "entry": entry, "faults": faults})
    return {"check": CHECK, "mode": "struct", "cases": cases}


def _gen_corrupt(r, fmt, lines, ann):
    cands = []
    for li, (s, e, kind, last) in enumerate(ann):
        toks = lines[li].split()
        if fmt == "mol2":
            if kind == "ATOM" and len(toks) >= 5:
                for t in (2, 3, 4) + ((8,) if len(toks) >= 9 else ()):
                    cands.append(("num", li, t, kind))
                cands.append(("id", li, 0, kind))
            elif kind == "BOND" and len(toks) >= 4:
                for t in (1, 2):
                    cands.append(("num", li, t, kind))
                    cands.append(("range", li, t, kind))
                cands.append(("id", li, 0, kind))
            elif kind.endswith(":rec") and len(toks) == 2:
                cands.append(("range", li, 0, kind.split(":")[0]))
            elif kind == "header" and toks and all(x.lstrip("-").isdigit() for x in toks) and li > 0 and ann[li - 2][2] == "tag:MOLECULE":
                for t in range(min(2, len(toks))):
                    cands.append(("count", li, t, kind))
            elif kind.startswith("tag:"):
                cands.append(("tag", li, 0, kind))
        else:
            if kind == "atom" and len(toks) == 4:
                for t in (1, 2, 3):
                    cands.append(("num", li, t, kind))
            elif kind == "count":
                cands.append(("count", li, 0, kind))
    if not cands:
        return None
    what, li, t, kind = r.choice(cands)
    toks = lines[li].split()
    if what == "num":
        if r.random() < 0.3 and len(toks[t]) >= 3:
            # one byte of the number replaced by a byte that is not valid UTF-8 (a damaged transfer): only a loader that
            # opens the FILE can meet it, so the case is bound to the path entry point
            k_ = r.randrange(len(toks[t]))
            return {"kind": "corrupt", "line": li, "tok": t, "with": toks[t][:k_] + r.choice(["\udce9", "\udcff", "\udc80"]) + toks[t][k_ + 1:],
                    "what": "byte", "entry": "mol.load_all@path"}
        return {"kind": "corrupt", "line": li, "tok": t, "with": r.choice(_BAD_NUM), "what": "numeric"}
    if what == "range":
        # an atom (or record) index that no atom of this molecule has: 0, a negative number, a number past the last atom.
        # (An index changed into ANOTHER VALID index is not generated - no reader can see that; these a reader can.)
        n_atoms = sum(1 for a_ in ann if a_[2] == "ATOM") + 50
        return {"kind": "corrupt", "line": li, "tok": t, "with": r.choice(["0", "0", "-1", "-2", str(n_atoms), str(n_atoms + 7)]), "what": "range"}
    if what == "id":
        # the record's own serial number becomes the serial number of a NEIGHBOURING record: two records carry one id and one
        # id is missing.  (A reader that goes by file order returns the undamaged molecule, one that goes by id must notice.)
        try:
            old = int(toks[0])
        except ValueError:
            return None
        nb = [j for j in (li - 1, li + 1) if 0 <= j < len(ann) and ann[j][2] == kind]
        if not nb:
            return None
        return {"kind": "corrupt", "line": li, "tok": 0, "with": lines[r.choice(nb)].split()[0], "what": "id"}
    if what == "count":
        old = int(toks[t])
        new = old + r.choice([-1, 1, 1, 2])
        if new < 0:
            new = old + 1
        return {"kind": "corrupt", "line": li, "tok": t, "with": str(new), "what": "count"}
    tag = toks[0]
    new = r.choice([tag[:-1], tag[:-2], "@<TRIPOS>", tag[: len("@<TRIPOS>") - 1] + tag[len("@<TRIPOS>"):], tag.replace("TRIPOS", "TRIPO"),
                    "@<TRIPOS>" + tag[len("@<TRIPOS>"):].lower()])
    return {"kind": "corrupt", "line": li, "tok": 0, "with": new, "what": "tag"}


# ---------------------------------------------------------------------------- running
def _judge(res, name, fmt, entry, text, dmg, fault_class, section, detail_fault, strict_optional=False):
    """strict_optional: the damage is an end of data INSIDE a record of an attribute block (the record announces more lines
    than there are) - then the optional content counts too.  Everywhere else optional content is not compared: a lost,
    shortened or re-attributed optional block (cut at a record boundary, damaged or lost tag of such a block) is itself a
    well-formed file, which no reader can tell from an undamaged one."""
    ref_exc, ref = _ref_cache(name, entry)
    if ref_exc is not None:
        # The UNDAMAGED file does not parse through this entry point.  Which well-formed files parse is another property's
        # business (C07); a tree that rejects one of the corpus files is judged on the others.  (On the unchanged tree every
        # reference parses; a tree that rejects most of the corpus cannot be judged at all.)
        res.stats["probe:reference_parse_failed"] += 1
        _REF_FAILED.add(name)
        if len(_REF_FAILED) > len(corpus()) // 2:
            raise HarnessError(f"reference parse fails for most corpus files, e.g. {name} via {entry}: {ref_exc!r}")
        return
    got, exc, st = _call(fmt, entry, dmg)
    res.evals += 1
    if st is not None:
        res.stats["probe:stream_channel_used"] += 1
    if entry.endswith("@path"):
        res.stats["probe:path_entry_used"] += 1
    sigbase = f"C10|{{clause}}|{fmt}|{fault_class}@{section}"
    if isinstance(exc, (StreamOveruse, RecursionError, StepBudget)):
        res.violate("reader-does-not-terminate", sigbase.format(clause="nontermination"),
                    f"{name} via {entry}: {exc!r} after {detail_fault}")
        return
    if exc is not None:
        # The observable result of consuming the reader is an exception: that is the allowed outcome.  Molecules a
        # *generator* entry point handed out before it noticed the damage are not judged (a streaming reader cannot see
        # damage that only shows on a later line; demanding that would ask more than the statement does).
        res.stats["probe:rejected_with_exception"] += 1
        if got:
            res.stats["probe:generator_entry_partial_then_exception"] += 1
        return
    if len(got) > len(ref):
        res.violate("more-molecules-than-the-undamaged-file", sigbase.format(clause="extra-molecule"),
                    f"{name} via {entry}: {len(got)} molecules returned, the undamaged file has {len(ref)}; {detail_fault}")
        return
    for i, g in enumerate(got):
        if (g != ref[i]) if strict_optional else (_core(g) != _core(ref[i])):
            what = _diff(g, ref[i])
            res.violate("partial-or-altered-molecule-returned", sigbase.format(clause="partial-molecule-returned"),
                        f"{name} via {entry}: molecule #{i} of {len(got)} returned{' (then ' + type(exc).__name__ + ')' if exc else ''} differs from the undamaged file's: {what}; {detail_fault}")
            return
    if exc is None:
        res.stats["probe:returned_all_unchanged" if len(got) == len(ref) else "probe:returned_strict_prefix"] += 1


def _diff(g, r):
    if g[0] != r[0]:
        return f"name {g[0]!r} != {r[0]!r}"
    if len(g[1]) != len(r[1]):
        return f"{len(g[1])} atoms instead of {len(r[1])}"
    for i, (a, b) in enumerate(zip(g[1], r[1])):
        if a != b:
            fields = ["element", "label", "type", "geometry", "coords", "charge", "formal charge", "attributes"]
            for f, x, y in zip(fields, a, b):
                if x != y:
                    return f"atom {i} {f} {x!r} != {y!r}"
    if len(g[2]) != len(r[2]):
        return f"{len(g[2])} bonds instead of {len(r[2])}"
    for i, (a, b) in enumerate(zip(g[2], r[2])):
        if a != b:
            return f"bond {i} {a!r} != {b!r}"
    return "?"


def run_plan(plan, trace=False):
    res = RunResult()
    res.evals = 0
    c = corpus()
    trace_lines = []
    if plan["mode"] == "trunc":
        name, entry = plan["file"], plan["entry"]
        fmt, text = c[name]
        lines, ann = _annotate(fmt, text)
        offs = trunc_offsets(name)
        mine = offs[plan["part"] * PART:(plan["part"] + 1) * PART]
        if "only" in plan:
            mine = [plan["only"]]
        for b in mine:
            cls, section = _eof_class(fmt, text, lines, ann, b)
            res.stats["probe:eof_" + {"line-boundary": "at_line_boundary", "molecule-boundary": "at_molecule_boundary",
                                      "inside-final-token": "inside_final_token"}.get(cls, "inside_line_mid")] += 1
            nv = len(res.violations)
            strict = False
            if fmt == "mol2" and b < len(text):
                li = next(i_ for i_, a_ in enumerate(ann) if a_[0] <= b < a_[1])
                k_ = ann[li][2]
                strict = k_.endswith(":attr") or (k_.endswith(":rec") and b > ann[li][0])
                if strict:
                    res.stats["probe:eof_inside_attribute_record"] += 1
            _judge(res, name, fmt, entry, text, text[:b], "eof-" + cls, section.split(":rec")[0].split(":attr")[0],
                   f"end of data at byte {b} of {len(text)} ({cls}, in {section} line)", strict_optional=strict)
            for v in res.violations[nv:]:
                v["hint"] = {"only": b}
            res.keys.append(f"{name}|{entry}|eof{b}")
        res.sample = {"mode": "trunc", "file": name, "entry": entry, "offsets": [mine[0], "...", mine[-1]] if mine else [], "n": len(mine)}
        trace_lines.append(f"truncation enumeration of {name} via {entry}: offsets {mine[:8]}...")
    else:
        for case in plan["cases"]:
            name, entry = case["file"], case["entry"]
            fmt, text = c[name]
            lines, ann = _annotate(fmt, text)
            dmg = apply_faults(text, case["faults"])
            f0 = case["faults"][0]
            section = ann[f0["line"]][2] if f0["line"] < len(ann) else "-"
            if f0["kind"] == "corrupt":
                fc = "corrupt-" + f0.get("what", "token")
                res.stats["probe:corrupt_" + f0.get("what", "numeric")] += 1
            else:
                fc = f0["kind"]
                res.stats["probe:" + f0["kind"]] += 1
            if len(case["faults"]) > 1:
                fc += "+eof"
            if dmg == text:
                continue
            # a lost or repeated line INSIDE an attribute record is visible to a reader (the record announces how many lines
            # follow): there the optional content counts
            strict_ = f0["kind"] in ("drop_line", "dup_line") and section.endswith((":rec", ":attr")) and len(case["faults"]) == 1
            if strict_:
                res.stats["probe:line_fault_inside_attribute_record"] += 1
            _judge(res, name, fmt, entry, text, dmg, fc, section.split(":rec")[0].split(":attr")[0],
                   f"faults {case['faults']} (line {f0['line']}: {lines[f0['line']].rstrip()!r})", strict_optional=strict_)
            res.keys.append(f"{name}|{entry}|{digest(dmg)}")
        res.sample = {"mode": "struct", "cases": plan["cases"][:3]}
        trace_lines.append(f"structural faults: {plan['cases']}")
    res.digest = digest((res.evals, [(v["signature"], v["detail"]) for v in res.violations], sorted(res.stats.items())))
    if trace:
        res.trace = trace_lines + [f"VIOLATED {v['clause']}: {v['detail']}" for v in res.violations[:6]]
    return res


def shrink_candidates(plan):
    if plan["mode"] == "trunc":
        if "only" not in plan:
            r = run_plan(plan)
            seen = set()
            for v in r.violations:
                if "hint" in v and v["signature"] not in seen:
                    seen.add(v["signature"])
                    p = copy.deepcopy(plan)
                    p["only"] = v["hint"]["only"]
                    yield p
        return
    cases = plan["cases"]
    if len(cases) > 1:
        for i in range(len(cases)):
            p = copy.deepcopy(plan)
            p["cases"] = [cases[i]]
            yield p
    for i, cse in enumerate(cases):
        if len(cse["faults"]) > 1:
            p = copy.deepcopy(plan)
            p["cases"][i]["faults"] = cse["faults"][:1]
            yield p
