"""C18 - jobmap computes each item once, reuses only valid results, resumes cleanly.

The real jobmap runs over real source / destination libraries (on a per-run directory in
/dev/shm) with a simulated thread pool (seeded completion order), a simulated
`_molli_run` spawn (the real run_local in-process, killable before / while it writes its
output file) and scripted external programs with per-item outcomes.  A history of 2-5
jobmap calls - with changes of the job argument, deleted / corrupted cache files,
pre-populated destinations, runner kills and driver interrupts in between - is compared
call by call with a per-item reference model: which items must execute, what the
destination must contain afterwards.
"""
from __future__ import annotations

import copy
import os
import shutil

from ..core import env
from ..core.engine import RunResult
from ..core.kernel import HarnessError
from ..core.rng import digest
from ..stubs.jobsim import FakeExec, SimExecutorFactory, SimInterrupt, SimSpawn, SimTqdmFactory, pipeline_seams

ID = "C18"
CHECK = "c18_jobmap"
LEVEL = "exploration"
RULE = (
    "A case is one history of 2-5 jobmap calls (+2 closing calls) over a source library of 1-6 items (single jobs on molecules, or vectorised "
    "per-conformer jobs on ensembles with 1-3 conformers), a destination that is empty or pre-populated (also with keys that exist only in the "
    "destination), and per call: the job argument (changes the input hash), per-item scripted outcomes (succeed / exit 1 / exit 2 / killed by "
    "signal / succeed without return file / fail after writing the return file), runner faults (killed before start, mid-command, before the "
    "output file exists, output file torn at a seeded byte), deleted or corrupted cache files, and optionally a driver interrupt during "
    "preparation / submission / waiting / finalisation. The thread pool's completion order is seeded. Reference model per expanded key: in "
    "destination?, cache entry (tag, success) or none/unreadable, execution counter. distinct_nontrivial counts distinct (history digest) "
    "among histories with at least one reuse decision (cache entry or destination entry present when a call starts)."
)
ASSUMPTIONS = [
    "Two runners interleave at one granularity only: while a command of one runner executes, another pending runner may run from start to end (seeded; bounded by n_workers). Finer interleavings inside run_local are not modelled (in-process children share the cwd).",
    "'Succeeded' means what C17 means: every command returned 0 and every requested file exists.",
    "After an injected interrupt the call's effects may be partial (a subset of the expected executions and destination entries); everything else is checked exactly.",
    "The _molli_run boundary is SimSpawn (conformance-tested against the real script); external programs are FakeExec scripts.",
]
REAL_VS_STUB = {
    "real": ["molli.pipeline.job.jobmap, Job, JobInput/JobOutput", "molli.pipeline.runner.run_local", "MoleculeLibrary / ConformerLibrary on real files with real fcntl locks",
             "tempfile, shutil, pathlib, msgpack"],
    "stub": ["concurrent.futures.ThreadPoolExecutor (SimExecutor, seeded completion order)", "_molli_run spawn (SimSpawn)", "external program (FakeExec)", "tqdm (SimTqdm, interrupt point)"],
}
# jobmap iterates over a SET of str keys (to_be_done): which item an interrupt strikes before, and the order of
# executions, are a function of the interpreter's string hashing.  ./check pins PYTHONHASHSEED=0, which makes a replay a
# pure function of the plan; the fresh-interpreter determinism test for this check therefore keeps the hash seed.
HASHSEED_SENSITIVE = True

FAULT_PROBES = {"runner_killed": "runner_killed", "output_file_torn": "output_torn", "interrupt_during_preparation": "interrupt_prepare",
                "interrupt_during_submission": "interrupt_submit", "interrupt_while_waiting": "interrupt_wait", "interrupt_during_finalisation": "interrupt_finalise",
                "command_fails_after_writing_return_file": "fail_after_writing_return_file", "cache_file_unreadable": "cache_unreadable",
                "runners_overlapped": "runners_overlapped"}
# a small share of the runs is repeated by fresh interpreters started with `python -O` (assert statements stripped)
INTERP_VARIANTS = [{"flags": ["-O"], "runs": {"quick": 160, "thorough": 3000}, "what": "python -O (assert statements stripped from the code under test)"}]
PROBES = ["fresh_destination_with_the_old_cache", "prep_refuses_an_item", "program_cannot_be_started", "job_without_return_files", "hash_comparison_switched_off_by_caller", "cache_hit_valid", "cache_other_tag", "cache_failed_rc", "cache_success_flag_but_missing_file", "cache_unreadable", "destination_only_key",
          "item_already_in_destination", "vectorised_partly_cached", "runner_killed", "output_torn", "interrupt_prepare", "interrupt_submit",
          "interrupt_wait", "interrupt_finalise", "tag_changed_between_calls", "fail_after_writing_return_file", "closing_call_completed", "idempotent_call_checked", "runners_overlapped", "driver_with_envars"]

OUTCOMES = ["ok", "ok", "ok", "ok", "rc1", "rc2", "sig", "nofile", "fail_with_file", "sig_with_file", "nostart"]


def budget(tier):
    if tier == "quick":
        return {"runs": 6000, "chunk": 20, "wall_cap": 500.0, "det_sample": 6}
    return {"runs": 600000, "chunk": 50, "wall_cap": 3300.0, "det_sample": 30}


def pre_checks(tier):
    from ..conformance import real_molli_run

    return {"conformance_molli_run": real_molli_run.run()}


# ---------------------------------------------------------------------------- generation
def gen_plan(r, tier, index):
    vec = r.random() < 0.35
    n = r.choice([1, 2, 2, 3, 3, 4, 6])
    # library keys are free-form strings: most runs use plain names, some use names with dots in them (one name being the
    # dotted extension of another, a name that ends like a file suffix) - the cache files are named after the keys
    if r.random() < 0.25:
        names = r.sample(["cat", "cat.v2", "lig.1", "lig", "lig.10", "a.b.c", "x.out", "it0"], n)
    else:
        names = [f"it{j}" for j in range(n)]
    items = [{"name": names[j], "nconf": (r.choice([1, 2, 2, 3, 3, 12]) if vec else 0)} for j in range(n)]
    dest_pre = []
    c = r.random()
    if c < 0.35:
        dest_pre = sorted(r.sample([x["name"] for x in items], r.randrange(0, n + 1)))
    if r.random() < 0.25:
        dest_pre.append("ghost_only_in_destination")

    def eks(it):
        return [it["name"]] if not vec else [f"{it['name']}.{k}" for k in range(it["nconf"])]

    all_eks = [e for it in items for e in eks(it)]
    calls = []
    tag = "t0"
    for ci in range(r.choice([2, 2, 3, 3, 4, 5])):
        if ci and r.random() < 0.25:
            tag = f"t{ci}"
        call = {"tag": tag, "outcomes": {}, "faults": {}, "interrupt": None, "cache_ops": [], "exec_seed": r.randrange(1 << 30)}
        # the less-used parameters of jobmap: job arguments given positionally, verbose output, and the caller's explicit
        # opt-out of the hash comparison (strict_hash=False: a successful cached output is reused whatever its input was)
        if r.random() < 0.15:
            call["as_args"] = True
        if r.random() < 0.1:
            call["verbose"] = True
        if ci and r.random() < 0.1:
            call["lenient_hash"] = True
        if ci and r.random() < 0.15:
            # this call maps into a FRESH, empty destination library while the cache directory stays: everything that has a
            # valid cached output is taken from there (nothing runs again), everything else runs
            call["new_destination"] = True
        if ci and r.random() < 0.15:
            # the job's prep() refuses one of the items under this call's arguments (an exception from user code): whether
            # jobmap gives up or skips the item, nothing may be run or stored for it.  (Mostly together with a change of
            # the arguments: a result cached for the OLD arguments is then lying around for that very item.)
            call["prep_raises"] = [r.choice(names)]
            if r.random() < 0.7 and tag == calls[-1]["tag"]:
                tag = f"t{ci}"
                call["tag"] = tag
        for e in all_eks:
            o = r.choice(OUTCOMES)
            if o != "ok":
                call["outcomes"][e] = o
        for e in all_eks:
            if r.random() < 0.08:
                call["faults"][e] = r.choice([{"kind": "kill_before_start"}, {"kind": "kill_mid_command"}, {"kind": "kill_before_out"},
                                              {"kind": "torn_out", "at": r.randrange(1, 400)}])
        if r.random() < 0.12:
            call["interrupt"] = {"phase": r.choice(["Preparing", "Submitting", "Waiting", "Finalizing"]), "at": r.randrange(0, 3)}
        if ci and r.random() < 0.2:
            call["cache_ops"].append({"op": r.choice(["delete", "corrupt"]), "key": r.choice(all_eks)})
        calls.append(call)
    return {"check": CHECK, "job_kind": r.choice(["files", "files", "files", "stdout"]), "vectorised": vec, "items": items, "dest_pre": dest_pre, "calls": calls, "n_workers": r.choice([1, 2, 4, None]),
            "driver_envars": r.choice([None, None, {"OMP_NUM_THREADS": "2"}, {"FAKE_LICENSE": "/opt/lic", "OMP_NUM_THREADS": "1"}]),
            "envars_in_input": r.random() < 0.5}


# ---------------------------------------------------------------------------- the test driver
_DRV = None
_PREP_RAISES = [frozenset()]   # item names whose prep() raises in the call in progress (the item cannot be prepared under these arguments)
_ENVARS_IN_INPUT = [True]   # whether the driver's prep() copies the job's envars into the JobInput (xtb-style preps do not)


def _driver():
    global _DRV
    if _DRV is None:
        import molli as ml
        from molli.pipeline import Job, JobInput
        from molli.pipeline.driver import DriverBase

        class FakeDriver(DriverBase):
            @Job(return_files=("out.txt",)).prep
            def calc(self, M, tag="t0"):
                if M.name in _PREP_RAISES[0]:
                    raise ValueError(f"injected: {M.name} cannot be prepared with {tag}")
                conf = f"c{M._conf_id}" if hasattr(M, "_conf_id") else "-"
                return JobInput(M.name, commands=[(f"{self.executable} {M.name} {tag} {conf}", "fake")],
                                files={"in.xyz": M.dumps_xyz().encode()}, return_files=self.return_files,
                                envars=dict(self.envars) if (self.envars and _ENVARS_IN_INPUT[0]) else None)

            @calc.post
            def calc(self, out, M, tag="t0"):
                txt = out.files["out.txt"]
                res = ml.Molecule(M, name=M.name)
                res.attrib["result"] = txt.decode()
                return res

            calc_ens = Job.vectorize(calc)

            @calc_ens.reduce
            def calc_ens(self, outputs, ens, *args, **kwargs):
                res = ml.ConformerEnsemble(ens)
                res.attrib["results"] = [m.attrib["result"] for m in outputs]
                return res

            # a job that requests NO return files (the Job() default): its result is what the program printed
            @Job().prep
            def echo(self, M, tag="t0"):
                if M.name in _PREP_RAISES[0]:
                    raise ValueError(f"injected: {M.name} cannot be prepared with {tag}")
                conf = f"c{M._conf_id}" if hasattr(M, "_conf_id") else "-"
                return JobInput(M.name, commands=[(f"{self.executable} {M.name} {tag} {conf}", "fake")],
                                files={"in.xyz": M.dumps_xyz().encode()},
                                envars=dict(self.envars) if (self.envars and _ENVARS_IN_INPUT[0]) else None)

            @echo.post
            def echo(self, out, M, tag="t0"):
                res = ml.Molecule(M, name=M.name)
                res.attrib["result"] = out.stdouts["fake"].strip()
                return res

            echo_ens = Job.vectorize(echo)

            @echo_ens.reduce
            def echo_ens(self, outputs, ens, *args, **kwargs):
                res = ml.ConformerEnsemble(ens)
                res.attrib["results"] = [m.attrib["result"] for m in outputs]
                return res

        _DRV = FakeDriver
    return _DRV


def _water(name, shift=0.0):
    import molli as ml

    m = ml.Molecule(n_atoms=3, name=name)
    for a, e in zip(m.atoms, ["O", "H", "H"]):
        a.element = ml.Element[e]
    m.coords[:] = [[0 + shift, 0, 0.117], [0, 0.757 + shift, -0.469], [0, -0.757, -0.469 - shift]]
    m.connect(m.atoms[0], m.atoms[1])
    m.connect(m.atoms[0], m.atoms[2])
    return m


# ---------------------------------------------------------------------------- execution
def run_plan(plan, trace=False):
    import molli as ml
    from molli.pipeline import jobmap

    res = RunResult()
    res.evals = 0
    vec = plan["vectorised"]
    root = os.path.join(env.SANDBOX, f"c18-{os.getpid()}")
    shutil.rmtree(root, ignore_errors=True)
    os.makedirs(root)
    tr = []
    Lib = ml.ConformerLibrary if vec else ml.MoleculeLibrary
    src_path, dst_path = os.path.join(root, "source.lib"), os.path.join(root, "dest.lib")
    cache_dir, scratch = os.path.join(root, "cache"), os.path.join(root, "scratch")
    outdir = os.path.join(cache_dir, "output")
    jobsig = "vector" if vec else "single"

    def eks(it):
        return [it["name"]] if not vec else [f"{it['name']}.{k}" for k in range(it["nconf"])]

    def viol(clause, cause, detail):
        res.violate(clause, f"C18|{clause}|job={jobsig}|{cause}", detail.replace(root, "<root>"))

    try:
        # ---- libraries
        src = Lib(src_path, readonly=False)
        with src.writing():
            for it in plan["items"]:
                if vec:
                    e = ml.ConformerEnsemble(_water(it["name"]), n_conformers=it["nconf"])
                    for k in range(it["nconf"]):
                        e.coords[k] = _water(it["name"], 0.1 * k).coords
                    src[it["name"]] = e
                else:
                    src[it["name"]] = _water(it["name"])
        dst = Lib(dst_path, readonly=False)
        model_dest = {}
        if plan["dest_pre"]:
            with dst.writing():
                for k in plan["dest_pre"]:
                    if vec:
                        e = ml.ConformerEnsemble(_water(k), n_conformers=1)
                        e.coords[0] = _water(k).coords
                        e.attrib["results"] = [f"pre:{k}"]
                        dst[k] = e
                    else:
                        m = _water(k)
                        m.attrib["result"] = f"pre:{k}"
                        dst[k] = m
                    model_dest[k] = [f"pre:{k}"] if vec else f"pre:{k}"
            if any(k not in {it["name"] for it in plan["items"]} for k in plan["dest_pre"]):
                res.stats["probe:destination_only_key"] += 1
        src_ro = Lib(src_path)
        # (a driver instance with its own environment settings: they are part of every JobInput it builds)
        drv = _driver()(executable="fakeprog", envars=plan.get("driver_envars"), check_exe=False, find=False)
        _ENVARS_IN_INPUT[0] = bool(plan.get("envars_in_input", True))
        if plan.get("driver_envars"):
            res.stats["probe:driver_with_envars"] += 1
        nofiles = plan.get("job_kind") == "stdout"
        if nofiles:
            res.stats["probe:job_without_return_files"] += 1
            job = drv.echo_ens if vec else drv.echo
        else:
            job = drv.calc_ens if vec else drv.calc
        cache = {}   # ek -> None | "unreadable" | {"tag","success","content","rc"}
        attempt_no = [0]
        attempts = {}
        all_items = {it["name"]: it for it in plan["items"]}
        calls = list(plan["calls"])
        last_tag = calls[-1]["tag"] if calls else "t0"
        closing = [{"tag": last_tag, "outcomes": {}, "faults": {}, "interrupt": None, "cache_ops": [], "exec_seed": 1, "closing": 1},
                   {"tag": last_tag, "outcomes": {}, "faults": {}, "interrupt": None, "cache_ops": [], "exec_seed": 2, "closing": 2}]
        prev_tag = None
        had_reuse = False
        for ci, call in enumerate(calls + closing):
            tag = call["tag"]
            if call.get("new_destination"):
                dst_path = os.path.join(root, f"dest_{ci}.lib")
                dst = Lib(dst_path, readonly=False)
                model_dest = {}
                res.stats["probe:fresh_destination_with_the_old_cache"] += 1
            if prev_tag is not None and tag != prev_tag:
                res.stats["probe:tag_changed_between_calls"] += 1
            prev_tag = tag
            # ---- cache manipulation between calls
            for op in call["cache_ops"]:
                p = os.path.join(outdir, op["key"] + ".out")
                if os.path.isfile(p):
                    if op["op"] == "delete":
                        os.remove(p)
                        cache[op["key"]] = None
                    else:
                        with open(p, "rb") as f:
                            data = f.read()
                        with open(p, "wb") as f:
                            f.write(data[: max(1, len(data) // 2)])
                        cache[op["key"]] = "unreadable"
            # ---- the model's expectation for this call
            refused = set(call.get("prep_raises") or ())
            _PREP_RAISES[0] = frozenset(refused)
            todo = [nm for nm in sorted(all_items) if nm not in model_dest and nm not in refused]
            if refused - set(model_dest):
                res.stats["probe:prep_refuses_an_item"] += 1
            for nm in sorted(all_items):
                if nm in model_dest:
                    res.stats["probe:item_already_in_destination"] += 1
                    had_reuse = True
            expect_exec = []
            state = {}
            for nm in todo:
                for e in eks(all_items[nm]):
                    c = cache.get(e)
                    if c is None:
                        st = "no-cache"
                    elif c == "unreadable":
                        st = "cache-unreadable"
                        res.stats["probe:cache_unreadable"] += 1
                    elif c["tag"] != tag and not call.get("lenient_hash"):
                        st = "cache-other-tag"
                        res.stats["probe:cache_other_tag"] += 1
                    elif not c["success"]:
                        st = "cache-failed-rc" if c["rc"] != 0 else "cache-missing-file"
                        res.stats["probe:cache_failed_rc" if c["rc"] != 0 else "probe:cache_success_flag_but_missing_file"] += 1
                    else:
                        st = "valid-cache"
                        res.stats["probe:cache_hit_valid"] += 1
                    if c is not None:
                        had_reuse = True
                    state[e] = st
                    if st != "valid-cache":
                        expect_exec.append(e)
                if vec:
                    sts = {state[e] for e in eks(all_items[nm])}
                    if "valid-cache" in sts and len(sts) > 1:
                        res.stats["probe:vectorised_partly_cached"] += 1
            # ---- run the real jobmap
            executed = []
            env_bad = []

            def behaviour(argv, rec, fe, _call=call, _tag=tag):
                nm, tg, conf = argv[1], argv[2], argv[3]
                for ek_, ev_ in ((plan.get("driver_envars") or {}) if plan.get("envars_in_input", True) else {}).items():
                    if (rec["env"] or {}).get(ek_) != ev_:
                        env_bad.append((nm, ek_, (rec["env"] or {}).get(ek_)))
                e = nm if conf == "-" else f"{nm}.{conf[1:]}"
                # per-key attempt numbers: independent of the order in which jobmap walks its key SET
                attempts[e] = attempts.get(e, 0) + 1
                attempt_no[0] = attempts[e]
                executed.append((e, tg, attempt_no[0]))
                flt = _call["faults"].get(e)
                if flt and flt["kind"] == "kill_mid_command":
                    return {"kill": True, "rc": -9}
                o = _call["outcomes"].get(e, "ok")
                content = f"{e}|{tg}|#{attempt_no[0]}".encode()
                if o == "ok":
                    return {"rc": 0, "files": {"out.txt": content}, "out": content.decode() + "\n"}
                if o == "rc1":
                    return {"rc": 1, "err": "failed\n"}
                if o == "rc2":
                    return {"rc": 2}
                if o == "sig":
                    return {"rc": -11}
                if o == "nostart":
                    # the external program cannot be started at all (not installed on this node)
                    return {"raise": FileNotFoundError(2, "No such file or directory", argv[0])}
                if o == "nofile" and nofiles:
                    return {"rc": 0, "out": content.decode() + "\n"}
                if o == "nofile":
                    return {"rc": 0}
                if o == "fail_with_file":
                    return {"rc": 1, "files": {"out.txt": content}}
                if o == "sig_with_file":
                    return {"rc": -9, "files": {"out.txt": content}}
                raise HarnessError(f"unknown outcome {o}")

            fe = FakeExec(behaviour)
            spawn_faults = {e: [f] for e, f in call["faults"].items() if f["kind"] != "kill_mid_command"}
            sp = SimSpawn(spawn_faults)
            tq = SimTqdmFactory(call["interrupt"])
            exf = SimExecutorFactory(call["exec_seed"])
            fe.hook = exf.overlap_hook
            raised = None
            with pipeline_seams(fe, sp, exf, tq):
                try:
                    import contextlib
                    import io as _io

                    extra = {}
                    if call.get("as_args"):
                        extra["args"] = (tag,)
                    else:
                        extra["kwargs"] = {"tag": tag}
                    if call.get("verbose"):
                        extra["verbose"] = True
                    if call.get("lenient_hash"):
                        extra["strict_hash"] = False
                        res.stats["probe:hash_comparison_switched_off_by_caller"] += 1
                    with contextlib.redirect_stdout(_io.StringIO()):
                        jobmap(job, src_ro, dst, cache_dir=cache_dir, scratch_dir=scratch, n_workers=plan["n_workers"], **extra)
                except SimInterrupt as e:
                    raised = e
                except HarnessError:
                    raise
                except Exception as e:  # noqa: BLE001 - jobmap must not raise for any of these histories
                    import traceback

                    if refused and isinstance(e, ValueError) and str(e).startswith("injected:"):
                        raised = e      # jobmap passes the refusal of prep() on to its caller: like an interrupted call
                    else:
                        site = traceback.extract_tb(e.__traceback__)[-1]
                        cause = "destination-only-key" if any(k not in all_items for k in model_dest) else "other"
                        viol("jobmap-raises", f"{type(e).__name__}|cause={cause}",
                             f"call #{ci} (tag {tag}) raised {e!r} at {site.filename.split('/')[-1]}:{site.lineno}; dest keys {sorted(model_dest)} source keys {sorted(all_items)}")
                        break
            res.evals += 1
            if exf.overlaps:
                res.stats["probe:runners_overlapped"] += exf.overlaps
            if executed and not sp.log:
                raise HarnessError("SEAM-LOST C18: commands ran but no _molli_run spawn went through SimSpawn")
            done_ok = [l_ for l_ in sp.log if l_["rc"] == 0 and not l_["fault"]]
            if done_ok and not any(os.path.isfile(os.path.join(outdir, l_["stem"] + ".out")) for l_ in done_ok):
                # cache files are damaged / removed / looked for under <cache_dir>/output/<key>.out: a tree that keeps them
                # elsewhere cannot be judged by this harness (a lost seam, not a verdict)
                raise HarnessError("SEAM-LOST C18: runners completed but no <cache_dir>/output/<key>.out exists - the cache layout is not the one this check knows")
            if expect_exec and not exf.executors and raised is None:
                raise HarnessError("SEAM-LOST C18: jobmap did not use the ThreadPoolExecutor seam")
            interrupted = raised is not None
            if call["interrupt"] and tq.fired:
                res.stats["probe:interrupt_" + {"Preparing": "prepare", "Submitting": "submit", "Waiting": "wait", "Finalizing": "finalise"}[call["interrupt"]["phase"]]] += 1
            ex_keys = [e for (e, _t, _n) in executed]
            tr.append(f"call #{ci} tag={tag} todo={todo} cache-states={state} expect_exec={sorted(expect_exec)} executed={sorted(ex_keys)} "
                      f"outcomes={call['outcomes']} faults={call['faults']} interrupt={call['interrupt']}{' (fired)' if interrupted else ''}")
            if env_bad:
                viol("command-ran-without-the-drivers-environment", "envars", f"call #{ci}: {env_bad[:3]} (driver envars {plan.get('driver_envars')})")
                break
            # ---- executions: exactly once each, exactly the expected ones
            dup = sorted({e for e in ex_keys if ex_keys.count(e) > 1})
            if dup:
                viol("item-executed-twice-in-one-call", "dup", f"call #{ci}: executed more than once: {dup}")
                break
            unexpected = sorted(set(ex_keys) - set(expect_exec))
            if unexpected:
                e = unexpected[0]
                nm = e.rsplit(".", 1)[0] if vec else e
                cause = "in-destination" if nm in model_dest else state.get(e, "not-in-source")
                viol("executed-although-result-was-available", f"state={cause}", f"call #{ci} (tag {tag}): {unexpected} executed again; state of {e}: {cause}; cache={cache.get(e)}")
                break
            missing = sorted(set(expect_exec) - set(ex_keys))
            if missing and not interrupted:
                # a runner killed before it started never reaches FakeExec: that is an execution attempt all the same
                missing = [e for e in missing if not (call["faults"].get(e, {}).get("kind") == "kill_before_start")]
            if missing and not interrupted:
                e = missing[0]
                viol("not-executed-although-result-is-missing", f"state={state.get(e)}",
                     f"call #{ci} (tag {tag}): {missing} were not executed; state of {e}: {state.get(e)}; cache={cache.get(e)}")
                break
            # ---- cache update (what each runner left behind)
            for (e, tg, n_) in executed:
                flt = call["faults"].get(e)
                o = call["outcomes"].get(e, "ok")
                if flt and flt["kind"] in ("kill_mid_command", "kill_before_out"):
                    res.stats["probe:runner_killed"] += 1
                    if flt["kind"] == "kill_before_out":
                        cache[e] = None      # SimSpawn removed the file the child would not have written
                    continue                  # kill_mid_command: whatever was there before stays
                if flt and flt["kind"] == "torn_out":
                    res.stats["probe:output_torn"] += 1
                    cache[e] = "unreadable"
                    continue
                if o == "nostart":
                    # a runner may die with a traceback (no output file) or still write a report - which must then be a failure
                    res.stats["probe:program_cannot_be_started"] += 1
                    cache[e] = {"tag": tg, "success": False, "rc": 1, "content": None} if os.path.isfile(os.path.join(outdir, e + ".out")) else None
                    continue
                rc = {"ok": 0, "rc1": 1, "rc2": 2, "sig": -11, "nofile": 0, "fail_with_file": 1, "sig_with_file": -9}[o]
                has_file = o in ("ok", "fail_with_file", "sig_with_file") or (nofiles and o == "nofile")
                if o in ("fail_with_file", "sig_with_file"):
                    res.stats["probe:fail_after_writing_return_file"] += 1
                cache[e] = {"tag": tg, "success": rc == 0 and has_file, "rc": rc, "content": f"{e}|{tg}|#{n_}" if has_file else None}
            for e, flt in call["faults"].items():
                if flt["kind"] == "kill_before_start" and e in expect_exec:
                    res.stats["probe:runner_killed"] += 1
            # An output jobmap decided NOT to reuse may be removed by it before the job runs again (it is, since fba74a9) or
            # be left in place: the statement does not care, but the model has to know whether the file is still there -
            # a later call with strict_hash=False may legitimately reuse it.  Existence (nothing else) is read off the disk.
            for e in expect_exec:
                if isinstance(cache.get(e), dict) and not os.path.isfile(os.path.join(outdir, e + ".out")):
                    cache[e] = None
            # ---- destination
            expect_new = {}
            for nm in todo:
                ks = eks(all_items[nm])
                ok = all(isinstance(cache.get(e), dict) and cache[e]["success"] and (cache[e]["tag"] == tag or call.get("lenient_hash")) for e in ks)
                if ok:
                    expect_new[nm] = [cache[e]["content"] for e in ks] if vec else cache[ks[0]]["content"]
            dst_ro = Lib(dst_path)
            with dst_ro.reading():
                got = {}
                for k in sorted(dst_ro.keys()):
                    obj = dst_ro[k]
                    got[k] = list(obj.attrib.get("results")) if vec else obj.attrib.get("result")
            bad = False
            for k, v in model_dest.items():
                if k not in got:
                    viol("destination-entry-lost", "pre-existing", f"call #{ci}: destination key {k!r} disappeared")
                    bad = True
                    break
                if got[k] != v:
                    viol("destination-entry-altered", "pre-existing", f"call #{ci}: destination[{k!r}] = {got[k]!r}, was {v!r}")
                    bad = True
                    break
            if bad:
                break
            for k in sorted(got):
                if k in model_dest:
                    continue
                if k not in expect_new:
                    nm_eks = eks(all_items[k]) if k in all_items else []
                    why = [(e, ("unreadable" if cache.get(e) == "unreadable" else None) if not isinstance(cache.get(e), dict)
                            else ("other-tag" if cache[e]["tag"] != tag else ("failed-rc" if cache[e]["rc"] != 0 else ("missing-file" if not cache[e]["success"] else "ok"))))
                           for e in nm_eks]
                    cause = next((w for _e, w in why if w not in ("ok", None)), "none")
                    viol("destination-holds-result-of-a-run-that-did-not-succeed-for-this-input", f"run={cause}",
                         f"call #{ci} (tag {tag}): destination gained {k!r} = {got[k]!r} but its run state is {why}")
                    bad = True
                    break
                if got[k] != expect_new[k]:
                    viol("destination-holds-wrong-result", "value", f"call #{ci}: destination[{k!r}] = {got[k]!r}, expected {expect_new[k]!r}")
                    bad = True
                    break
            if bad:
                break
            if not interrupted:
                lacking = sorted(set(expect_new) - set(got))
                if lacking:
                    viol("successful-item-missing-from-destination", "missing", f"call #{ci} (tag {tag}): {lacking} succeeded but are not in the destination")
                    break
            for k in got:
                if k not in model_dest:
                    model_dest[k] = got[k]
            # ---- closing obligations
            if call.get("closing") == 1:
                lacking = sorted(set(all_items) - set(model_dest))
                if lacking:
                    viol("rerun-does-not-complete-the-destination", "closing", f"after a fault-free rerun with all outcomes succeeding, {lacking} are still missing")
                    break
                res.stats["probe:closing_call_completed"] += 1
            if call.get("closing") == 2:
                if executed:
                    viol("not-idempotent", "closing", f"a further call executed {sorted(ex_keys)} although the destination is complete")
                    break
                res.stats["probe:idempotent_call_checked"] += 1
        if had_reuse:
            res.keys.append(digest(tr))
    except HarnessError:
        raise
    finally:
        shutil.rmtree(root, ignore_errors=True)
    res.digest = digest((tr, [(v["signature"], v["detail"]) for v in res.violations]))
    res.sample = {"vectorised": vec, "items": plan["items"], "dest_pre": plan["dest_pre"],
                  "calls": [{k: v for k, v in c.items() if k != "exec_seed"} for c in plan["calls"]][:4]}
    if trace:
        res.trace = [f"items={plan['items']} dest_pre={plan['dest_pre']} vectorised={vec}"] + tr
        for v in res.violations[:4]:
            res.trace.append(f"VIOLATED {v['clause']}: {v['detail']}")
    return res


# ---------------------------------------------------------------------------- shrinking
def shrink_candidates(plan):
    calls = plan["calls"]
    for i in range(len(calls) - 1, -1, -1):
        if len(calls) > 1:
            p = copy.deepcopy(plan)
            del p["calls"][i]
            yield p
    names = [it["name"] for it in plan["items"]]
    if len(names) > 1:
        for nm in names:
            p = copy.deepcopy(plan)
            p["items"] = [it for it in p["items"] if it["name"] != nm]
            p["dest_pre"] = [k for k in p["dest_pre"] if k != nm]
            for c in p["calls"]:
                c["outcomes"] = {k: v for k, v in c["outcomes"].items() if (k.rsplit(".", 1)[0] if plan["vectorised"] else k) != nm}
                c["faults"] = {k: v for k, v in c["faults"].items() if (k.rsplit(".", 1)[0] if plan["vectorised"] else k) != nm}
                c["cache_ops"] = [o for o in c["cache_ops"] if (o["key"].rsplit(".", 1)[0] if plan["vectorised"] else o["key"]) != nm]
            yield p
    for i, c in enumerate(calls):
        if c["interrupt"]:
            p = copy.deepcopy(plan)
            p["calls"][i]["interrupt"] = None
            yield p
        for k in sorted(c["faults"]):
            p = copy.deepcopy(plan)
            del p["calls"][i]["faults"][k]
            yield p
        for k in sorted(c["outcomes"]):
            p = copy.deepcopy(plan)
            del p["calls"][i]["outcomes"][k]
            yield p
        if c["cache_ops"]:
            p = copy.deepcopy(plan)
            p["calls"][i]["cache_ops"] = []
            yield p
    for k in list(plan["dest_pre"]):
        p = copy.deepcopy(plan)
        p["dest_pre"].remove(k)
        yield p
    if plan["vectorised"]:
        for i, it in enumerate(plan["items"]):
            if it["nconf"] > 1:
                p = copy.deepcopy(plan)
                p["items"][i]["nconf"] = 1
                for c in p["calls"]:
                    c["outcomes"] = {k: v for k, v in c["outcomes"].items() if not (k.rsplit(".", 1)[0] == it["name"] and k.rsplit(".", 1)[1] != "0")}
                    c["faults"] = {k: v for k, v in c["faults"].items() if not (k.rsplit(".", 1)[0] == it["name"] and k.rsplit(".", 1)[1] != "0")}
                    c["cache_ops"] = [o for o in c["cache_ops"] if not (o["key"].rsplit(".", 1)[0] == it["name"] and o["key"].rsplit(".", 1)[1] != "0")]
                yield p
