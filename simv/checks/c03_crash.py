"""C03 - a crash while appending never damages committed records or shows a torn one.

Fault enumeration: for each seeded session plan the append session is executed once
on the simulated disk (under the real io.Buffered* layer) and its raw write stream is
recorded; the crash image for EVERY byte offset of that stream is then rebuilt and
handed to a set of recovery histories (reopen r / reopen a + put / stale handles /
Collection sessions / second crash).  A live multi-process variant (a writer killed at
a seeded kernel call while others poll the lock) runs under the seeded scheduler.
"""
from __future__ import annotations

import hashlib
import pickle

from ..core import kernel as K
from ..core.engine import RunResult
from ..core.rng import digest
from ..core.sched import Scheduler
from ..core.seams import storage_seams
from .common import LIBPATH, key_bytes, short, value_bytes

ID = "C03"
CHECK = "c03_crash"
LEVEL = "fault_enumeration"
RULE = (
    "A case is one (crash image, recovery history) pair. Session plans are generated from the seed "
    "(0-5 committed records, append session of 1-6 puts; key sizes 1..255, values 0 B..70 kB incl. "
    "buffer-boundary sizes and header-like payloads; UKVFile and Collection/MoleculeLibrary-style sessions; "
    "raw-device buffer sizes 1..65536). For every session the crash image at EVERY byte offset of the raw "
    "write stream is built (exhaustive up to the tier's stream bound; beyond it all raw-write boundaries +-8 "
    "bytes plus a seeded sample), and each image is run through the plan's recovery histories. "
    "distinct_nontrivial counts distinct (image digest, recovery kind) pairs whose crash point lies strictly "
    "inside the session's stream (a torn state). Live variant: a writer is killed at a seeded kernel call "
    "(optionally tearing the write in flight) while 1-3 other simulated processes poll the lock."
)
ASSUMPTIONS = [
    "Process death only (SIGKILL/OOM): the OS keeps every byte of every completed write(); power loss / lost pages are out of scope (molli never calls fsync).",
    "The file header itself was written by an earlier, cleanly finished creation; crashes during creation are outside the statement (it speaks of append sessions).",
    "SimFS gives POSIX semantics (sparse write zero-fills, O_APPEND not used by molli); real CPython io.BufferedRandom/BufferedReader run on top.",
    "Crash images are prefixes of the recorded raw write stream: nothing the writer does before byte b depends on whether it dies at b.",
]
REAL_VS_STUB = {
    "real": ["molli.storage.ukvfile.UKVFile", "molli.storage.backends.UkvCollectionBackend", "molli.storage.collection.Collection",
             "io.BufferedRandom/BufferedReader", "struct", "fasteners.InterProcessReaderWriterLock (acquire/retry/release logic)"],
    "stub": ["raw file device + namespace (SimRaw/SimFS/SimPath)", "fcntl lock table (SimLockMech)", "clock (virtual)",
             "OS processes (baton-passed threads) in the live variant"],
}
FAULT_PROBES = {"crash_inside_block_header": "crash_in_header", "crash_inside_key": "crash_in_key", "crash_inside_value": "crash_in_value",
                "crash_on_block_boundary": "crash_on_boundary", "second_crash_in_recovery_append": "second_crash", "live_writer_killed": "live_writer_killed",
                "live_torn_write": "live_torn_write"}
# a small share of the runs is repeated by fresh interpreters started with `python -O` (assert statements stripped)
INTERP_VARIANTS = [{"flags": ["-O"], "runs": {"quick": 24, "thorough": 400}, "what": "python -O (assert statements stripped from the code under test)"}]
PROBES = ["crash_in_header", "crash_in_key", "crash_in_value", "crash_on_boundary", "crash_before_first_byte",
          "torn_header_announces_beyond_eof", "recovery_append_done", "second_crash", "stale_handle_recovery",
          "direct_raw_write_of_value", "molecule_library_recovery", "same_handle_read_then_append", "live_writer_killed", "live_survivor_session_after_kill", "live_torn_write"]

RECOVERIES = ["r", "a", "stale_r", "stale_a", "coll_r", "coll_w", "stale_coll_w", "a_crash2", "r_then_a", "coll_r_then_w"]


def pre_checks(tier):
    from ..conformance import real_fs, real_lock

    return {"conformance_lock": real_lock.run(), "conformance_fs": real_fs.run()}


def budget(tier):
    if tier == "quick":
        return {"runs": 960, "chunk": 6, "wall_cap": 240.0, "det_sample": 6}
    return {"runs": 12000, "chunk": 20, "wall_cap": 3000.0, "det_sample": 40}


# ------------------------------------------------------------------------------ plan generation
def _gen_key(r, used, ascii_only):
    for _ in range(50):
        c = r.random()
        if c < 0.55:
            spec = "k%d" % r.randrange(40)
        elif c < 0.7:
            spec = r.choice("abcxyz")
        elif c < 0.8:
            spec = ["L%d_" % r.randrange(9), 255]
        elif c < 0.88:
            spec = ["M%d_" % r.randrange(9), r.choice([5, 17, 100, 254])]
        elif c < 0.91:
            spec = ""          # the empty key is a key like any other (a block of 5 header bytes when its value is empty too)
        elif ascii_only:
            spec = "key_%d" % r.randrange(1000)
        else:
            spec = r.choice(["\x00", "\xff", "\x00\x01\xfe", "\x05\x00\x00\x00\x03"])
        kb = key_bytes(spec)
        if kb not in used:
            used.add(kb)
            return spec
    raise RuntimeError("key generation exhausted")


def _gen_val(r, tag, big_ok, bufsize):
    c = r.random()
    if c < 0.12:
        n = 0
    elif c < 0.3:
        n = r.randrange(1, 6)
    elif c < 0.7:
        n = r.randrange(6, 200)
    elif c < 0.82:
        n = max(0, bufsize + r.randrange(-12, 13))
    elif c < 0.92 or not big_ok:
        n = r.randrange(200, 1500)
    else:
        n = r.choice([8191, 8192, 8193, 20000, 70000])
    kind = "hdr" if r.random() < 0.25 else "txt"
    return [tag, n, kind]


def _all_ascii(plan):
    return all(key_bytes(x["k"]).isascii() for x in plan["committed"] + plan["session"])


def _gen_kill(r, nses):
    op = r.choice(["write", "write", "write", "*", "*", "close", "seek_end", "read"])
    hi = {"write": nses + 2, "*": 10 + 7 * nses, "close": 3, "seek_end": 2, "read": 4}[op]
    return {"op": op, "nth": r.randrange(1, hi), "tear": r.randrange(0, 4000)}


def gen_plan(r, tier, index):
    live = r.random() < (0.25 if tier == "quick" else 0.3)
    bufsize = r.choice([8192, 8192, 4096, 4096, 65536, 64, 16, 1])
    layer = r.choice(["ukv", "ukv", "ukv", "coll", "coll", "coll", "mlib"])
    ascii_only = layer in ("coll", "mlib") or live
    used = set()
    ncom = r.choice([0, 1, 1, 2, 3, 5])
    nses = r.choice([1, 1, 2, 2, 3, 4, 6])
    big_ok = tier == "thorough" and r.random() < 0.3
    tag = 0
    committed, session = [], []
    for _ in range(ncom):
        tag += 1
        committed.append({"k": _gen_key(r, used, ascii_only), "v": _gen_val(r, tag, False, min(bufsize, 300))})
    for _ in range(nses):
        tag += 1
        session.append({"k": _gen_key(r, used, ascii_only), "v": _gen_val(r, tag, big_ok, bufsize)})
    for rec in committed + session:
        if rec["k"] == "" and r.random() < 0.6:
            rec["v"][1] = 0
    plan = {
        "check": CHECK, "bufsize": bufsize, "layer": layer,
        "coll_bufsize": r.choice([-1, -1, 0, 40, 1 << 20]),
        "h2": r.choice(["", "", "comment", "c" * 300]), "b0len": r.choice([0, 0, 7, 64]),
        "committed": committed, "session": session,
        "max_stream": 1200 if tier == "quick" else 16384,
        "sample_seed": r.randrange(1 << 30),
    }
    if live:
        plan["live"] = {
            "others": [{"kind": r.choice(["w", "w", "r"]), "sessions": r.choice([1, 2, 3])} for _ in range(r.choice([1, 1, 2, 3]))],
            "kill": _gen_kill(r, nses),
            "sched_seed": r.randrange(1 << 30),
            "strategy": r.choice([{"kind": "random"}, {"kind": "sticky", "p": 0.8}, {"kind": "pct", "d": 2, "span": 120}]),
            "victim_stale": r.random() < 0.5,
        }
        plan["layer"] = "coll"
        if plan["coll_bufsize"] == 40:
            plan["coll_bufsize"] = 60
    else:
        k = r.choice([2, 2, 3, 3, 4, 8]) if tier == "thorough" else r.choice([2, 2, 3])
        pool = RECOVERIES
        if not _all_ascii(plan):
            pool = [x for x in RECOVERIES if "coll" not in x]  # Collections need utf-8 keys
        plan["recoveries"] = sorted(r.sample(pool, min(k, len(pool))), key=RECOVERIES.index)
        if layer == "mlib":
            plan["recoveries"] = ["mlib_r"] + [x for x in plan["recoveries"] if x != "a_crash2"][:2]
            plan["b0len"] = 0
    return plan


# ------------------------------------------------------------------------------ helpers on molli
_MOLCACHE = {}


def _mol_for(rec):
    """The molecule stored for a record in the 'mlib' layer (deterministic in key, tag and pad size)."""
    import molli as ml

    key = key_bytes(rec["k"]).decode("latin-1")
    tag, n = rec["v"][0], rec["v"][1]
    m = ml.Molecule(n_atoms=3, name=key)
    for a, e in zip(m.atoms, ("O", "H", "H")):
        a.element = ml.Element[e]
    m.coords[:] = [[float(tag % 5), 0.0, 0.25], [0.0, 1.0, 0.0], [0.0, 0.0, -1.5]]
    m.attrib["t"] = tag
    m.attrib["pad"] = value_bytes([tag, min(n, 2000)])
    return m


def _val(plan, rec) -> bytes:
    """The exact bytes a put of this record stores under the plan's layer."""
    if plan["layer"] != "mlib":
        return value_bytes(rec["v"])
    ck = (repr(rec["k"]), tuple(rec["v"][:2]))
    if ck not in _MOLCACHE:
        import msgpack
        from molli.chem.io import _serialize_mol_v2

        _MOLCACHE[ck] = msgpack.dumps(_serialize_mol_v2(_mol_for(rec)), use_single_float=True)
        if len(_MOLCACHE) > 4000:
            _MOLCACHE.clear()
    return _MOLCACHE[ck]


def _mk_coll(path, readonly, bufsize, **kw):
    from molli.storage import Collection, UkvCollectionBackend

    return Collection(path, UkvCollectionBackend, readonly=readonly, bufsize=bufsize, **kw)


def _layout(image0_len, session, plan=None):
    """Intended on-disk layout of the session's records: list of (start, key_start, val_start, end)."""
    out = []
    pos = image0_len
    for rec in session:
        kl, vl = len(key_bytes(rec["k"])), len(_val(plan, rec) if plan else value_bytes(rec["v"]))
        out.append((pos, pos + 5, pos + 5 + kl, pos + 5 + kl + vl))
        pos += 5 + kl + vl
    return out


def _region(layout, size):
    """Class of a crash image by where its physical end lies in the intended layout."""
    if not layout or size <= layout[0][0]:
        return "before"
    for (s, ks, vs, e) in layout:
        if size < s:
            break
        if size == s:
            return "boundary"
        if size < ks:
            return "hdr"
        if size < vs:
            return "key"
        if size < e:
            return "val"
    if size == layout[-1][3]:
        return "boundary"
    return "other"


_REGION_CLASS = {"hdr": "torn-block", "key": "torn-block", "val": "torn-block", "boundary": "block-boundary",
                 "before": "block-boundary", "other": "unexpected-layout"}
_REC_CLASS = {"r_then_a": "same-handle-read-then-append", "coll_r_then_w": "same-handle-read-then-append", "mlib_r": "molecule-library", "r": "reopen-r", "a": "reopen-a", "stale_r": "stale-handle", "stale_a": "stale-handle", "coll_r": "collection",
              "coll_w": "collection", "stale_coll_w": "stale-handle", "a_crash2": "reopen-a"}


class _Expect:
    def __init__(self, plan):
        self.committed = {key_bytes(x["k"]): _val(plan, x) for x in plan["committed"]}
        self.session = {key_bytes(x["k"]): _val(plan, x) for x in plan["session"]}


def _check_view(res, sig_base, label, listing, getter, must, may, detail_ctx):
    """Clauses b and c: `must` keys present and exact; every other listed key in `may` and exact."""
    listing = list(listing)
    lset = set(listing)
    for k, v in must.items():
        if k not in lset:
            res.violate("b-committed-record-missing", f"{sig_base}|b-missing", f"{label}: committed key {short(k)} not listed; {detail_ctx}")
            return False
        try:
            got = getter(k)
        except Exception as e:  # noqa: BLE001
            res.violate("b-committed-record-unreadable", f"{sig_base}|b-unreadable", f"{label}: get({short(k)}) raised {e!r}; {detail_ctx}")
            return False
        if got != v:
            res.violate("b-committed-record-altered", f"{sig_base}|b-altered", f"{label}: get({short(k)}) = {short(got)} expected {short(v)}; {detail_ctx}")
            return False
    for k in listing:
        if k in must:
            continue
        if k not in may:
            res.violate("c-partial-or-foreign-key", f"{sig_base}|c-key", f"{label}: listed key {short(k)} is not a complete key of any put; {detail_ctx}")
            return False
        try:
            got = getter(k)
        except Exception as e:  # noqa: BLE001
            res.violate("c-listed-record-unreadable", f"{sig_base}|c-unreadable", f"{label}: get({short(k)}) raised {e!r}; {detail_ctx}")
            return False
        if got != may[k]:
            kind = "zero-padded" if got.rstrip(b"\0") != got and len(got) == len(may[k]) else ("short" if len(got) < len(may[k]) else "wrong")
            res.violate("c-torn-value", f"{sig_base}|c-value-{kind}", f"{label}: get({short(k)}) = {short(got)} expected {short(may[k])}; {detail_ctx}")
            return False
    if len(listing) != len(lset):
        res.violate("c-duplicate-listing", f"{sig_base}|c-dup", f"{label}: key listed twice; {detail_ctx}")
        return False
    return True


FRESH1 = (b"zz_fresh_1", b"<fresh-one>" * 3)
FRESH2 = (b"zz_fresh_2", b"")
FRESH3 = (b"zz_fresh_3", b"<fresh-three>" * 40)
# fresh records used by recoveries that follow the SECOND crash (the first set may legitimately exist by then)
FRESH_D1 = ((b"yy_fresh_1", b"<fresh-one-again>" * 2), (b"yy_fresh_2", b""), (b"yy_fresh_3", b"<f3>"))


def _recover(res, kind, image, plan, exp, stale_blobs, sig_base, ctx, depth=0):
    """Run one recovery history on a fresh kernel holding `image`.  Returns nothing; violations go to res."""
    from molli.storage.ukvfile import UKVFile

    kern = K.Kernel(bufsize=plan["bufsize"])
    kern.keep_log = False
    kern.max_events = 200000
    kern.files[kern.norm(LIBPATH)] = bytearray(image)
    K.install(kern)
    may = dict(exp.session)
    may.update(getattr(exp, "extra_may", {}))
    must = exp.committed
    path = K.SimPath(LIBPATH)
    FRESH1, FRESH2, FRESH3 = FRESH_D1 if depth else (globals()["FRESH1"], globals()["FRESH2"], globals()["FRESH3"])
    try:
        if kind in ("r", "a", "stale_r", "stale_a", "a_crash2"):
            mode = "r" if kind in ("r", "stale_r") else "a"
            if kind == "a_crash2" and depth == 0:
                # record from before the open: a repairing open may itself write/truncate
                kern.record_writes.add(kern.norm(LIBPATH))
            if kind.startswith("stale"):
                h = pickle.loads(stale_blobs["ukv"])
                res.stats["probe:stale_handle_recovery"] += 1
                h.open(mode)
            else:
                h = UKVFile(path, mode=mode)
            ok = _check_view(res, sig_base, f"reopen[{kind}]", list(h.keys()), h.get, must, may, ctx)
            if not ok:
                h.close()
                return
            if mode == "a":
                visible = {k: h.get(k) for k in list(h.keys())}
                h.put(*FRESH1)
                h.put(*FRESH2)
                if kind == "a_crash2":
                    h.put(*FRESH3)
                # "further appends read back correctly": also at once, through the very handle that appended them (whatever
                # of the torn tail still sits in its read buffer)
                for fk_, fv_ in (FRESH1, FRESH2):
                    try:
                        g_ = h.get(fk_)
                    except Exception as e_:  # noqa: BLE001
                        res.violate("d-append-after-recovery-unreadable-in-session", f"{sig_base}|d-same-session-raises-{type(e_).__name__}",
                                    f"get({short(fk_)}) right after the recovery put raised {e_!r}; {ctx}")
                        h.close()
                        return
                    if g_ != fv_:
                        res.violate("d-append-after-recovery-wrong-value-in-session", f"{sig_base}|d-same-session-value",
                                    f"get({short(fk_)}) right after the recovery put = {short(g_)} expected {short(fv_)}; {ctx}")
                        h.close()
                        return
                res.stats["probe:recovery_append_read_back_in_the_same_session"] += 1
                h.close()
                res.stats["probe:recovery_append_done"] += 1
                h2 = UKVFile(path, mode="r")
                exp_all = dict(visible)
                exp_all[FRESH1[0]] = FRESH1[1]
                exp_all[FRESH2[0]] = FRESH2[1]
                if kind == "a_crash2":
                    exp_all[FRESH3[0]] = FRESH3[1]
                got_keys = list(h2.keys())
                if set(got_keys) != set(exp_all) or len(got_keys) != len(exp_all):
                    res.violate("d-append-after-recovery-changed-listing", f"{sig_base}|d-listing",
                                f"after recovery append listing={sorted(map(short, got_keys))} expected={sorted(map(short, exp_all))}; {ctx}")
                    h2.close()
                    return
                for k, v in exp_all.items():
                    g = h2.get(k)
                    if g != v:
                        res.violate("d-append-after-recovery-wrong-value", f"{sig_base}|d-value",
                                    f"after recovery append get({short(k)})={short(g)} expected {short(v)}; {ctx}")
                        h2.close()
                        return
                h2.close()
                if kind == "a_crash2" and depth == 0 and (len(image) < 6000 or (len(image) + plan["sample_seed"]) % 7 == 0):
                    _second_crash(res, kern, image, plan, exp, visible, sig_base, ctx)
        elif kind == "r_then_a":
            # ONE handle object looks at the crashed file read-only first (and caches what it saw), then appends
            h = UKVFile(path, mode="r")
            ok = _check_view(res, sig_base, "reopen[r] (before appending through the same handle)", list(h.keys()), h.get, must, may, ctx)
            h.close()
            if not ok:
                return
            h.open("a")
            visible = {k: h.get(k) for k in list(h.keys())}
            h.put(*FRESH2)
            h.put(*FRESH1)
            h.close()
            res.stats["probe:recovery_append_done"] += 1
            res.stats["probe:same_handle_read_then_append"] += 1
            exp_all = dict(visible)
            exp_all[FRESH1[0]] = FRESH1[1]
            exp_all[FRESH2[0]] = FRESH2[1]
            for label, opener in (("same handle", lambda: (h.open("r"), h)[1]), ("fresh handle", lambda: UKVFile(path, mode="r"))):
                h2 = opener()
                got_keys = list(h2.keys())
                if set(got_keys) != set(exp_all) or len(got_keys) != len(exp_all):
                    res.violate("d-append-after-recovery-changed-listing", f"{sig_base}|d-listing",
                                f"after read-then-append through one handle, {label} lists {sorted(map(short, got_keys))} expected {sorted(map(short, exp_all))}; {ctx}")
                    h2.close()
                    return
                for k, v in exp_all.items():
                    g = h2.get(k)
                    if g != v:
                        res.violate("d-append-after-recovery-wrong-value", f"{sig_base}|d-value",
                                    f"after read-then-append through one handle, {label} get({short(k)})={short(g)} expected {short(v)}; {ctx}")
                        h2.close()
                        return
                h2.close()
        elif kind == "coll_r_then_w":
            c = _mk_coll(path, False, plan["coll_bufsize"])
            with c.reading():
                ks = sorted(c.keys())
                ok = _check_view(res, sig_base, "Collection.reading (before writing through the same handle)", [k.encode("latin-1") for k in ks],
                                 lambda kb: c[kb.decode("latin-1")], must, may, ctx)
                visible = {k: c[k] for k in ks} if ok else None
            if not ok:
                return
            with c.writing():
                c[FRESH2[0].decode()] = FRESH2[1]
                c[FRESH1[0].decode()] = FRESH1[1]
            res.stats["probe:recovery_append_done"] += 1
            res.stats["probe:same_handle_read_then_append"] += 1
            exp_all = dict(visible)
            exp_all[FRESH1[0].decode()] = FRESH1[1]
            exp_all[FRESH2[0].decode()] = FRESH2[1]
            for label, cc in (("same handle", c), ("fresh handle", _mk_coll(path, True, -1))):
                with cc.reading():
                    if set(cc.keys()) != set(exp_all):
                        res.violate("d-append-after-recovery-changed-listing", f"{sig_base}|d-listing",
                                    f"after reading() then writing() through one Collection, {label} lists {sorted(cc.keys())} expected {sorted(exp_all)}; {ctx}")
                        return
                    for k, v in exp_all.items():
                        g = cc[k]
                        if g != v:
                            res.violate("d-append-after-recovery-wrong-value", f"{sig_base}|d-value",
                                        f"after reading() then writing() through one Collection, {label} get({k!r})={short(g)} expected {short(v)}; {ctx}")
                            return
        elif kind == "mlib_r":
            import molli as ml

            lib = ml.MoleculeLibrary(path)
            with lib.reading():
                ks = sorted(lib.keys())
                raw_ = getattr(lib, "_backend", None)      # (raw record bytes, where the library lets one at them)
                ok = raw_ is None or _check_view(res, sig_base, "MoleculeLibrary.reading (raw bytes)", [k.encode("latin-1") for k in ks],
                                                 lambda kb: raw_.get(kb.decode("latin-1")), must, may, ctx)
                if ok:
                    for k in ks:
                        try:
                            m = lib[k]
                        except Exception as e:  # noqa: BLE001
                            res.violate("c-listed-molecule-undecodable", f"{sig_base}|c-undecodable", f"MoleculeLibrary[{k!r}] raised {e!r}; {ctx}")
                            return
                        if m.name != k or m.n_atoms != 3:
                            res.violate("c-listed-molecule-wrong", f"{sig_base}|c-molecule", f"MoleculeLibrary[{k!r}] decoded to {m.name!r} with {m.n_atoms} atoms; {ctx}")
                            return
                    res.stats["probe:molecule_library_recovery"] += 1
        elif kind == "coll_r":
            c = _mk_coll(path, True, plan["coll_bufsize"])
            with c.reading():
                ks = sorted(c.keys())
                _check_view(res, sig_base, "Collection.reading", [k.encode("latin-1") for k in ks],
                            lambda kb: c[kb.decode("latin-1")], must, may, ctx)
        elif kind in ("coll_w", "stale_coll_w"):
            if kind == "stale_coll_w":
                c = pickle.loads(stale_blobs["coll"])
                res.stats["probe:stale_handle_recovery"] += 1
            else:
                c = _mk_coll(path, False, plan["coll_bufsize"])
            with c.writing():
                ks = sorted(c.keys())
                ok = _check_view(res, sig_base, f"Collection.writing[{kind}]", [k.encode("latin-1") for k in ks],
                                 lambda kb: c[kb.decode("latin-1")], must, may, ctx)
                visible = {k: c[k] for k in ks} if ok else None
                if ok:
                    c[FRESH1[0].decode()] = FRESH1[1]
            if not ok:
                return
            res.stats["probe:recovery_append_done"] += 1
            c2 = _mk_coll(path, True, -1)
            with c2.reading():
                exp_all = dict(visible)
                exp_all[FRESH1[0].decode()] = FRESH1[1]
                if set(c2.keys()) != set(exp_all):
                    res.violate("d-append-after-recovery-changed-listing", f"{sig_base}|d-listing",
                                f"after Collection recovery append listing={sorted(c2.keys())} expected={sorted(exp_all)}; {ctx}")
                    return
                for k, v in exp_all.items():
                    g = c2[k]
                    if g != v:
                        res.violate("d-append-after-recovery-wrong-value", f"{sig_base}|d-value",
                                    f"after Collection recovery append get({k!r})={short(g)} expected {short(v)}; {ctx}")
                        return
        else:
            raise K.HarnessError(f"unknown recovery kind {kind}")
    except K.SimLimit as e:
        res.violate("a-recovery-does-not-terminate", f"{sig_base}|a-hang", f"recovery {kind} exceeded {kern.max_events} kernel events ({e}); {ctx}")
    except K.HarnessError:
        raise
    except Exception as e:  # noqa: BLE001 - recovery must not fail
        res.violate("a-recovery-raises", f"{sig_base}|a-raises-{type(e).__name__}", f"recovery {kind} raised {e!r}; {ctx}")
    finally:
        kern.finished = True
        K.install(None)


def _second_crash(res, kern, image, plan, exp, visible, sig_base, ctx):
    """The recovery append itself dies at a seeded byte; recover again (clause e)."""
    wl = kern.wlog.get(kern.norm(LIBPATH), [])
    total = sum(len(w[2]) for w in wl if w[0] == "w")
    if total == 0:
        return
    import random

    rr = random.Random(plan["sample_seed"] ^ len(image))
    cuts = sorted({0, total - 1, rr.randrange(total), rr.randrange(total), min(total - 1, 3), min(total - 1, 6)})
    exp2 = _Expect.__new__(_Expect)
    exp2.committed = dict(exp.committed)
    exp2.session = dict(exp.session)
    exp2.extra_may = {FRESH1[0]: FRESH1[1], FRESH2[0]: FRESH2[1], FRESH3[0]: FRESH3[1]}
    for cut in cuts:
        img2 = bytearray(image)
        left = cut
        for w in wl:
            if w[0] == "t":
                if w[1] < len(img2):
                    del img2[w[1]:]
                else:
                    img2.extend(b"\0" * (w[1] - len(img2)))
                continue
            _, off, data, _pid = w
            take = data if left >= len(data) else data[:left]
            if off > len(img2):
                img2.extend(b"\0" * (off - len(img2)))
            img2[off:off + len(take)] = take
            left -= len(take)
            if len(take) < len(data):
                break
        res.stats["probe:second_crash"] += 1
        for kind in ("r", "a"):
            res.evals += 1
            _recover(res, kind, bytes(img2), plan, exp2, {}, sig_base.split("|rec=")[0] + "|rec=second-crash",
                     ctx + f" second-crash-cut={cut}/{total}", depth=1)
            # what was visible after the first recovery must still be there (committed part is in `must`)


# ------------------------------------------------------------------------------ run
def run_plan(plan, trace=False):
    try:
        if "live" in plan:
            return _run_live(plan, trace)
        return _run_enum(plan, trace)
    except (K.HarnessError, K.SimCrash):
        raise
    except Exception as e:  # noqa: BLE001 - the un-faulted parts of a run (set-up, clean session) must not fail
        import traceback

        res = RunResult()
        site = traceback.extract_tb(e.__traceback__)[-1]
        res.violate("clean-operation-raises", f"C03|clean-operation-raises|{type(e).__name__}",
                    f"an un-faulted step (committed prefix, clean append session or set-up) raised {e!r} at {site.filename.split('/')[-1]}:{site.name}")
        res.digest = digest(("exc", repr(e)))
        return res


def _run_enum(plan, trace=False):
    from molli.storage.ukvfile import UKVFile

    res = RunResult()
    res.evals = 0
    exp = _Expect(plan)
    k0 = K.Kernel(bufsize=plan["bufsize"])
    k0.keep_log = False
    path = K.SimPath(LIBPATH)
    only = plan.get("only")
    with storage_seams(k0):
        # ---- phase 1: committed prefix, closed cleanly; stale handles taken here
        h2 = plan["h2"].encode()
        b0 = bytes(range(1, plan["b0len"] + 1)) if plan["b0len"] else None
        if plan["layer"] == "ukv":
            with UKVFile(path, mode="x", h2=h2, b0=b0) as f:
                for rec in plan["committed"]:
                    f.put(key_bytes(rec["k"]), value_bytes(rec["v"]))
        elif plan["layer"] == "mlib":
            import molli as ml

            lib = ml.MoleculeLibrary(path, readonly=False, bufsize=plan["coll_bufsize"], comment=plan["h2"] or None)
            if plan["committed"]:
                with lib.writing():
                    for rec in plan["committed"]:
                        lib[key_bytes(rec["k"]).decode("latin-1")] = _mol_for(rec)
        else:
            c = _mk_coll(path, False, plan["coll_bufsize"], comment=plan["h2"], b0=b0)
            if plan["committed"]:
                with c.writing():
                    for rec in plan["committed"]:
                        c[key_bytes(rec["k"]).decode("latin-1")] = value_bytes(rec["v"])
        stale = UKVFile(path, mode="r")
        stale.close()
        stale_blobs = {"ukv": pickle.dumps(stale)}
        if _all_ascii(plan):
            sc = _mk_coll(path, False, plan["coll_bufsize"])
            with sc.reading():
                pass
            stale_blobs["coll"] = pickle.dumps(sc)
        image0 = k0.image(path)
        # ---- phase 2: the append session, raw write stream recorded
        k0.record_writes.add(k0.norm(path))
        if plan["layer"] == "ukv":
            f = UKVFile(path, mode="a")
            for rec in plan["session"]:
                f.put(key_bytes(rec["k"]), value_bytes(rec["v"]))
            f.close()
        elif plan["layer"] == "mlib":
            lib = ml.MoleculeLibrary(path, readonly=False, bufsize=plan["coll_bufsize"])
            with lib.writing():
                for rec in plan["session"]:
                    lib[key_bytes(rec["k"]).decode("latin-1")] = _mol_for(rec)
        else:
            c = _mk_coll(path, False, plan["coll_bufsize"])
            with c.writing():
                for rec in plan["session"]:
                    c[key_bytes(rec["k"]).decode("latin-1")] = value_bytes(rec["v"])
        wlog = list(k0.wlog.get(k0.norm(path), []))
        final = k0.image(path)
        if k0.counters["seam:open"] == 0:
            raise K.HarnessError("SEAM-LOST seam:open (C03 session did not go through SimFS)")

        layout = _layout(len(image0), plan["session"], plan)
        total = sum(len(w[2]) for w in wlog if w[0] == "w")
        if any(len(w[2]) > plan["bufsize"] for w in wlog if w[0] == "w") and plan["bufsize"] >= 64:
            res.stats["probe:direct_raw_write_of_value"] += 1
        # ---- crash points: (op index j, bytes b of op j applied)
        import random

        rs = random.Random(plan["sample_seed"])
        exhaustive = total <= plan["max_stream"]
        points = []
        for j, w in enumerate(wlog):
            if w[0] == "t":
                points.append((j, 0))
                continue
            n = len(w[2])
            if exhaustive or n <= 40:
                points.extend((j, b) for b in range(n))
            else:
                bs = set(range(0, 9)) | set(range(n - 8, n)) | {rs.randrange(n) for _ in range(24)}
                # the intended layout boundaries that fall inside this write
                for (s, ks, vs, e) in layout:
                    for edge in (s, ks, vs, e):
                        rel = edge - w[1]
                        for d in (-1, 0, 1):
                            if 0 <= rel + d < n:
                                bs.add(rel + d)
                points.extend((j, b) for b in sorted(bs))
        points.append((len(wlog), 0))
        if only is not None:
            points = [tuple(only["point"])]
            recs = [only["rec"]]
        else:
            recs = plan["recoveries"]

        # ---- walk the stream, materialising images
        base = bytearray(image0)
        applied = 0  # ops fully applied to base
        consumed = 0
        offsets_before = []
        acc = 0
        for w in wlog:
            offsets_before.append(acc)
            acc += len(w[2]) if w[0] == "w" else 0
        offsets_before.append(acc)
        for (j, b) in points:
            while applied < j:
                w = wlog[applied]
                if w[0] == "t":
                    if w[1] < len(base):
                        del base[w[1]:]
                    else:
                        base.extend(b"\0" * (w[1] - len(base)))
                else:
                    off, data = w[1], w[2]
                    if off > len(base):
                        base.extend(b"\0" * (off - len(base)))
                    base[off:off + len(data)] = data
                applied += 1
            img = bytearray(base)
            if b:
                off, data = wlog[j][1], wlog[j][2]
                if off > len(img):
                    img.extend(b"\0" * (off - len(img)))
                img[off:off + b] = data[:b]
            stream_off = offsets_before[j] + b
            region = _region(layout, len(img))
            res.stats["probe:crash_" + {"hdr": "in_header", "key": "in_key", "val": "in_value", "boundary": "on_boundary",
                                        "before": "before_first_byte", "other": "other"}[region]] += 1
            if region in ("key", "val"):
                res.stats["probe:torn_header_announces_beyond_eof"] += 1
            imgb = bytes(img)
            ih = hashlib.blake2b(imgb, digest_size=8).hexdigest()
            nontrivial = 0 < stream_off < total
            for kind in recs:
                res.evals += 1
                sig_base = f"C03|crash@{_REGION_CLASS[region]}|rec={_REC_CLASS[kind]}"
                ctx = f"crash point op#{j}+{b}B (stream offset {stream_off}/{total}, image {len(img)}B, committed image {len(image0)}B)"
                nv = len(res.violations)
                _recover(res, kind, imgb, plan, exp, stale_blobs, sig_base, ctx)
                for v in res.violations[nv:]:
                    v["hint"] = {"point": [j, b], "rec": kind}
                if nontrivial:
                    res.keys.append(f"{ih}|{kind}")
            if len(res.violations) > 40:
                break
        res.stats["sessions"] += 1
        res.stats["stream_bytes"] += total
        res.stats["exhaustive_sessions" if exhaustive else "sampled_sessions"] += 1
        if final != bytes(base) and only is None and applied == len(wlog):
            raise K.HarnessError("C03: replaying the recorded write stream does not reproduce the final image")
    res.digest = digest((len(image0), [(w[0], w[1], len(w[2])) for w in wlog], res.evals,
                         [(v["signature"], v["detail"]) for v in res.violations]))
    res.sample = {"layer": plan["layer"], "bufsize": plan["bufsize"], "coll_bufsize": plan["coll_bufsize"],
                  "committed": [(short(key_bytes(x["k"])), x["v"][1]) for x in plan["committed"]],
                  "session": [(short(key_bytes(x["k"])), x["v"][1]) for x in plan["session"]],
                  "raw_writes": [(w[0], w[1], len(w[2])) for w in wlog][:12], "crash_points": len(points),
                  "recoveries": recs}
    if trace:
        res.trace = [f"layer={plan['layer']} bufsize={plan['bufsize']} coll_bufsize={plan['coll_bufsize']}",
                     f"committed image: {len(image0)} bytes; records {[(short(key_bytes(x['k'])), x['v'][1]) for x in plan['committed']]}",
                     f"append session puts: {[(short(key_bytes(x['k'])), x['v'][1]) for x in plan['session']]}",
                     f"raw write stream: {[(w[0], w[1], len(w[2])) for w in wlog]}",
                     f"crash points evaluated: {points[:20]}{'...' if len(points) > 20 else ''} x recoveries {recs}"]
        for v in res.violations[:5]:
            res.trace.append(f"VIOLATED {v['clause']}: {v['detail']}")
    return res


# ------------------------------------------------------------------------------ live multi-process variant
def _run_live(plan, trace=False):
    res = RunResult()
    lv = plan["live"]
    exp = _Expect(plan)
    kern = K.Kernel(bufsize=plan["bufsize"])
    kern.max_events = 400000
    path = K.SimPath(LIBPATH)
    events = []  # workload-level log
    with storage_seams(kern):
        # set-up (pid 0, no scheduler): library with committed records
        c0 = _mk_coll(path, False, -1, comment=plan["h2"])
        if plan["committed"]:
            with c0.writing():
                for rec in plan["committed"]:
                    c0[key_bytes(rec["k"]).decode("latin-1")] = value_bytes(rec["v"])
        stale_blob = pickle.dumps(c0)
        sched = Scheduler(kern, lv["sched_seed"], lv["strategy"], max_steps=20000, max_time=120.0)
        victim_pid = 1
        kern.faults.append(K.Fault("kill", victim_pid, lv["kill"]["op"], lv["kill"]["nth"], "session", lv["kill"]["tear"]))
        sess_may = dict(exp.session)

        def victim():
            c = pickle.loads(stale_blob) if lv["victim_stale"] else _mk_coll(path, False, plan["coll_bufsize"])
            if hasattr(getattr(c, "_backend", None), "_bufsize"):
                c._backend._bufsize = plan["coll_bufsize"]
            kern.set_phase("session")
            with c.writing():
                events.append((kern.seq, victim_pid, "body"))
                for rec in plan["session"]:
                    c[key_bytes(rec["k"]).decode("latin-1")] = value_bytes(rec["v"])
            kern.set_phase(None)
            events.append((kern.seq, victim_pid, "completed"))

        survivors_written = {}

        def make_other(pid, spec):
            def other():
                c = pickle.loads(stale_blob) if pid % 2 == 0 else _mk_coll(path, spec["kind"] == "r", -1)
                for s in range(spec["sessions"]):
                    if spec["kind"] == "r":
                        with c.reading():
                            ks = sorted(c.keys())
                            events.append((kern.seq, pid, "read-begin", tuple(ks)))
                            vals = {k: c[k] for k in ks}
                            events.append((kern.seq, pid, "read", vals))
                    else:
                        key = f"s{pid}_{s}"
                        val = f"<survivor {pid} {s}>".encode() * (1 + (pid + s) % 5)
                        with c.writing():
                            ks = sorted(c.keys())
                            vals = {k: c[k] for k in ks}
                            events.append((kern.seq, pid, "read", vals))
                            c[key] = val
                        survivors_written[key] = val
                        events.append((kern.seq, pid, "wrote", key))
                    kern.sleep(0.003 * (1 + pid))
            return other

        sched.spawn(victim_pid, victim)
        for i, spec in enumerate(lv["others"]):
            sched.spawn(2 + i, make_other(2 + i, spec))
        try:
            sched.run()
        except K.SimLimit:
            pass
        killed = victim_pid in kern.dead
        sig_base = f"C03|live|killed@{lv['kill']['op']}" if killed else "C03|live|nokill"
        if killed:
            res.stats["probe:live_writer_killed"] += 1
            res.stats["fault_fired:kill"] += 1
            if kern.counters["torn_write"]:
                res.stats["probe:live_torn_write"] += 1
        else:
            res.stats["fault_configured_not_fired:kill"] += 1
        ctx = f"kill={lv['kill']} killed={killed} steps={sched.steps} t={kern.now:.3f}"
        # every survivor observation: committed intact, others complete
        must = {k.decode("latin-1"): v for k, v in exp.committed.items()}
        for ev in events:
            if ev[2] == "read":
                vals = ev[3]
                may = {k.decode("latin-1"): v for k, v in sess_may.items()}
                may.update({k: v for k, v in survivors_written.items()})
                # survivors' own keys written later are also fine: key space is disjoint by construction
                _check_view(res, sig_base, f"pid {ev[1]} session view @seq {ev[0]}", list(vals), vals.__getitem__, must,
                            _LiveMay(may), ctx)
                if killed:
                    res.stats["probe:live_survivor_session_after_kill"] += 1
        for t in sched.tasks.values():
            if t.exc is not None:
                res.violate("d-survivor-session-raises", f"{sig_base}|d-survivor-raises-{type(t.exc).__name__}",
                            f"pid {t.pid} raised {t.exc!r}; {ctx}")
        if sched.cap is not None:
            res.violate("d-survivors-do-not-progress", f"{sig_base}|d-no-progress-{sched.cap}",
                        f"run hit the {sched.cap} cap: survivors never got the lock after the writer died; locks={ {kern.canon(p): dict(h) for p, h in kern.locks.items()} }; {ctx}")
        # final durability: fresh process reads everything survivors wrote
        final_img = kern.image(path)
    if not res.violations:
        exp2 = _Expect.__new__(_Expect)
        exp2.committed = dict(exp.committed)
        exp2.committed.update({k.encode(): v for k, v in survivors_written.items()})
        exp2.session = dict(exp.session)
        with storage_seams(K.Kernel(bufsize=plan["bufsize"])):
            for kind in ("r", "coll_r"):
                res.evals += 1
                _recover(res, kind, final_img, plan, exp2, {}, sig_base + f"|final={kind}", ctx)
    res.evals += 1
    res.sim_seconds = kern.now
    res.stats["ev:total"] += kern.seq
    if killed:
        res.keys.append("live|" + digest([(e[1], e[2], e[3]) for e in kern.log if e[2] in ("trylock", "write", "killed", "unlock")]))
    res.digest = digest(([e[:4] for e in kern.log], [(v["signature"], v["detail"]) for v in res.violations], sched.choices))
    res.sample = {"live": lv, "steps": sched.steps, "killed": killed, "sim_seconds": round(kern.now, 4)}
    if trace:
        res.trace = [f"live variant: {lv}"] + [f"{e}" for e in kern.log[-80:]]
        for v in res.violations[:5]:
            res.trace.append(f"VIOLATED {v['clause']}: {v['detail']}")
    return res


class _LiveMay(dict):
    """`may` mapping for survivor views: session keys with exact values plus survivor keys (s<pid>_<n>)
    whose values are checked against what that survivor finally reports having written."""

    def __contains__(self, k):
        if dict.__contains__(self, k):
            return True
        return isinstance(k, str) and k.startswith("s") and "_" in k

    def __getitem__(self, k):
        if dict.__contains__(self, k):
            return dict.__getitem__(self, k)
        p, s = k[1:].split("_")
        p, s = int(p), int(s)
        return f"<survivor {p} {s}>".encode() * (1 + (p + s) % 5)


# ------------------------------------------------------------------------------ shrinking
def shrink_candidates(plan):
    import copy

    if "live" in plan:
        lv = plan["live"]
        for i in range(len(lv["others"])):
            if len(lv["others"]) > 1:
                p = copy.deepcopy(plan)
                del p["live"]["others"][i]
                yield p
        for i, o in enumerate(lv["others"]):
            if o["sessions"] > 1:
                p = copy.deepcopy(plan)
                p["live"]["others"][i]["sessions"] -= 1
                yield p
        if lv["strategy"].get("kind") != "lowest":
            p = copy.deepcopy(plan)
            p["live"]["strategy"] = {"kind": "lowest"}
            yield p
        if lv["kill"]["tear"] > 0:
            for t in (0, 1, lv["kill"]["tear"] // 2):
                if t < lv["kill"]["tear"]:
                    p = copy.deepcopy(plan)
                    p["live"]["kill"]["tear"] = t
                    yield p
    else:
        if "only" not in plan:
            r = run_plan(plan)
            for v in r.violations:
                if "hint" in v:
                    p = copy.deepcopy(plan)
                    p["only"] = v["hint"]
                    yield p
                    break
    for fld in ("committed", "session"):
        for i in range(len(plan[fld])):
            if fld == "session" and len(plan[fld]) == 1:
                continue
            p = copy.deepcopy(plan)
            del p[fld][i]
            p.pop("only", None)
            yield p
    for fld in ("committed", "session"):
        for i, rec in enumerate(plan[fld]):
            n = rec["v"][1]
            for m in (0, 1, 3, n // 2):
                if m < n:
                    p = copy.deepcopy(plan)
                    p[fld][i]["v"][1] = m
                    p.pop("only", None)
                    yield p
            if len(rec["v"]) > 2 and rec["v"][2] == "hdr":
                p = copy.deepcopy(plan)
                p[fld][i]["v"][2] = "txt"
                p.pop("only", None)
                yield p
            if not isinstance(rec["k"], str):
                p = copy.deepcopy(plan)
                p[fld][i]["k"] = f"K{i}{fld[0]}"
                p.pop("only", None)
                yield p
    if plan["h2"]:
        p = copy.deepcopy(plan)
        p["h2"] = ""
        p.pop("only", None)
        yield p
    if plan["b0len"]:
        p = copy.deepcopy(plan)
        p["b0len"] = 0
        p.pop("only", None)
        yield p
    if plan["bufsize"] != 8192:
        p = copy.deepcopy(plan)
        p["bufsize"] = 8192
        p.pop("only", None)
        yield p
    if "recoveries" in plan and len(plan["recoveries"]) > 1 and "only" not in plan:
        for kind in plan["recoveries"]:
            p = copy.deepcopy(plan)
            p["recoveries"] = [kind]
            yield p
