"""C17 - a job runs exactly what was asked and reports exactly what happened.

The real `_molli_run` entry point (molli.pipeline.runner.run_local) is executed as a
simulated child process (SimSpawn); its external commands are served by FakeExec, which
records what every command could observe (argv, cwd, environment, directory listing,
input-file contents) and fails / dies / omits files as scripted.  For every seeded base
job the check enumerates every first-failure position x failure kind x subset of
requested files left missing.  The driver clause (a JobInput reflects the settings of the
driver instance it was built through, whatever other instances were used before) is
checked in the same runs against a model that simply reads the instance's attributes.
"""
from __future__ import annotations

import copy
import itertools
import os
import shlex
import shutil

from ..core import env
from ..core.engine import RunResult
from ..core.kernel import HarnessError
from ..core.rng import digest
from ..stubs.jobsim import FakeExec, SimSpawn, pipeline_seams

ID = "C17"
CHECK = "c17_job"
LEVEL = "fault_enumeration"
RULE = (
    "A case is one execution of the real run_local as a simulated child on a seeded base job (1-4 commands, named or not; 0-3 text/binary "
    "input files; 0-3 requested return files produced by commands or identical to input files, also 'none requested'; environment "
    "overrides; a scratch directory that already holds a foreign job's residue) under one fault assignment, or one use-sequence of 2-3 "
    "driver instances with distinct settings. Per base job ALL first-failure positions (none, 0..n-1) x failure kinds (exit 1, 2, 255, "
    "death by signal) x ALL subsets of requested files left missing are enumerated, plus a runner killed mid-command; per driver set all "
    "use sequences up to length 4 (<= 120). distinct_nontrivial counts distinct (base-job digest, fault assignment) pairs with a failing "
    "command or a missing file, plus distinct driver use sequences that use >= 2 instances."
)
ASSUMPTIONS = [
    "The _molli_run process boundary is SimSpawn: the real run_local called in-process with argv/cwd set and SystemExit mapped to the exit status (conformance-tested against the real /venv/bin/_molli_run with sh commands).",
    "External programs are FakeExec scripts; nothing is assumed about real xtb/orca.",
    "Commands of one job are sequential: there is no scheduling nondeterminism inside a job; the simulation contributes the controllable child process and per-command observation.",
    "Driver settings: job-level settings given to Job(...) take precedence over the instance's (by design of molli); class-level defaults conflicting with instance values are not generated.",
]
REAL_VS_STUB = {
    "real": ["molli.pipeline.runner.run_local", "JobInput/JobOutput msgpack dump/load and hash", "tempfile.TemporaryDirectory, os.chdir, pathlib", "Job descriptor / DriverBase"],
    "stub": ["_molli_run process boundary (SimSpawn)", "external programs (FakeExec)"],
}
FAULT_PROBES = {"first_command_fails": "first_command_fails", "middle_command_fails": "middle_command_fails", "last_command_fails": "last_command_fails",
                "death_by_signal": "death_by_signal", "return_file_missing": "return_file_missing", "runner_killed_mid_command": "runner_killed_mid_command",
                "second_job_same_jid_overlaps": "two_jobs_same_jid_overlap"}
# a small share of the runs is repeated by fresh interpreters started with `python -O` (assert statements stripped)
INTERP_VARIANTS = [{"flags": ["-O"], "runs": {"quick": 64, "thorough": 800}, "what": "python -O (assert statements stripped from the code under test)"}]
PROBES = ["all_commands_succeed", "first_command_fails", "middle_command_fails", "last_command_fails", "death_by_signal", "return_file_missing",
          "all_return_files_missing", "return_file_is_input_file", "binary_input_file", "unnamed_command", "no_return_files_requested",
          "runner_killed_mid_command", "driver_second_instance_used_after_first", "driver_job_level_override", "driver_subclass_instance", "driver_created_used_dropped", "driver_class_level_envars", "two_jobs_same_jid_overlap", "driver_found_through_PATH", "driver_vectorised_job", "same_program_names_on_the_runners_PATH", "command_cannot_be_started", "driver_job_looked_at_through_the_class", "longer_files_of_an_earlier_run_in_place", "directories_given_as_relative_paths",
          "two_runners_create_the_directories_together"]

FAIL_KINDS = [("rc", 1), ("rc", 2), ("rc", 255), ("sig", -11), ("nostart", None), ("slow", None)]


def budget(tier):
    if tier == "quick":
        return {"runs": 3200, "chunk": 10, "wall_cap": 400.0, "det_sample": 6}
    return {"runs": 130000, "chunk": 25, "wall_cap": 3300.0, "det_sample": 30}


def pre_checks(tier):
    from ..conformance import real_molli_run

    return {"conformance_molli_run": real_molli_run.run()}


def gen_plan(r, tier, index):
    ncmd = r.choice([1, 2, 2, 3, 3, 4])
    cmds = []
    names = set()
    for i in range(ncmd):
        nm = None
        if r.random() < 0.7:
            nm = r.choice(["main", "pre", "post", "xtb", "step"]) + str(i)
        cmds.append({"prog": f"prog{i}", "args": r.choice(["", "--opt tight", "-P 4 'quoted arg'", "input.xyz --gfn 2"]), "name": nm})
    files = {}
    for j in range(r.choice([0, 1, 1, 2, 3])):
        if r.random() < 0.35:
            files[f"in{j}.bin"] = {"hex": bytes(r.randrange(256) for _ in range(r.choice([0, 1, 17, 300]))).hex()}
        else:
            files[f"in{j}.txt"] = {"text": r.choice(["", "3\nwater\nO 0 0 0\n", "line one\nline two é\n", "x" * 5000])}
    rets = []
    nret = r.choice([0, 1, 1, 2, 2, 3])
    for j in range(nret):
        if files and r.random() < 0.25:
            rets.append({"name": r.choice(sorted(files)), "by": "input"})
        else:
            rets.append({"name": f"ret{j}.dat", "by": r.randrange(ncmd)})
    seen = set()
    rets = [x for x in rets if not (x["name"] in seen or seen.add(x["name"]))]
    plan = {
        "check": CHECK, "jid": r.choice(["job7", "mol_a", "x-1", "very_long_job_identifier_0001"]),
        "commands": cmds, "files": files, "returns": rets,
        "return_files_none": nret == 0 and r.random() < 0.5,
        "envars": r.choice([None, {}, {"OMP_NUM_THREADS": "4"}, {"OMP_NUM_THREADS": "2", "MOLLI_TEST_VAR": "a b", "HOME": "/nonexistent"}]),
        # programs of the same names exist on the RUNNER's own PATH while the job brings its own PATH: the commands still
        # run exactly as asked (bare program name, looked up in the job's environment by whoever executes them)
        "runner_path_shadow": r.random() < 0.25,
        # some produced return files are empty: an existing file of 0 bytes exists
        "empty_returns": r.random() < 0.3,
        "stale_files": r.random() < 0.3,
        "relative_dirs": r.random() < 0.3,
        "drivers": {
            "job_level": r.choice([{}, {}, {"executable": "jobexe"}, {"nprocs": 3}, {"envars": {"JOBVAR": "J"}}]),
            "class_envars": r.choice([None, None, {"CLSVAR": "c"}, {"CLSVAR": "c", "SHARED": "from-class"}]),
            "instances": [{"executable": f"exe{k}", "nprocs": r.choice([1, 2, 8, 16]), "memory": r.choice([None, 500, 4000]),
                           "envars": r.choice([None, {f"V{k}": str(k)}, {"SHARED": f"from{k}"}]), "subclass": r.random() < 0.25}
                          for k in range(r.choice([2, 2, 3]))],
        },
    }
    if plan["runner_path_shadow"]:
        plan["envars"] = dict(plan["envars"] or {}, PATH="/job/own/bin:/usr/bin")
    return plan


# ---------------------------------------------------------------------------- one execution
def _file_bytes(spec):
    return bytes.fromhex(spec["hex"]) if "hex" in spec else spec["text"].encode("utf8")


def _file_value(spec):
    return bytes.fromhex(spec["hex"]) if "hex" in spec else spec["text"]


def _ret_bytes(plan, x):
    if plan.get("empty_returns") and x["name"].endswith(("0.dat", "2.dat")):
        return b""
    return f"result {x['name']} by {x['by']}".encode() + bytes([0, 255, x["by"]])


def _exec_one(plan, fail, missing, kill_at, root, res, sigctx, twin=False):
    """fail: None or (position, kind, code); missing: frozenset of return names not produced; kill_at: None or command index."""
    from molli.pipeline import JobInput, JobOutput

    shutil.rmtree(root, ignore_errors=True)
    os.makedirs(root)
    scratch = os.path.join(root, "scratch")
    outdir = os.path.join(root, "out")
    work = os.path.join(root, "work")
    os.makedirs(work)
    fresh_dirs = twin == "fs"     # neither the scratch nor the output directory exists yet: the runners create them
    if not fresh_dirs:
        os.makedirs(os.path.join(scratch, plan["jid"] + "__foreign"))   # another job's private directory
        with open(os.path.join(scratch, plan["jid"] + "__foreign", "keep.txt"), "w") as f:
            f.write("foreign")
    cmds = [(f"{c['prog']} {c['args']}".strip(), c["name"]) for c in plan["commands"]]
    rf = None if plan["return_files_none"] else tuple(x["name"] for x in plan["returns"])
    slow = fail is not None and fail[1] == "slow"
    ji = JobInput(plan["jid"], commands=cmds, files={k: _file_value(v) for k, v in plan["files"].items()} or None,
                  return_files=rf, envars=plan["envars"], **({"timeout": 1.0} if slow else {}))
    inp = os.path.join(root, "thejob.inp")
    stale_report = None
    if plan.get("stale_files") and not fresh_dirs:
        # a LONGER input and a LONGER report of an earlier run sit at the very paths this run writes to (a rerun after the
        # job was simplified): what is read afterwards must be this run's input and this run's report, nothing of the old ones
        JobInput(plan["jid"], commands=[("old " * 400, "oldname")] * 6, files={"old.bin": b"o" * 9000}).dump(inp)
        os.makedirs(outdir, exist_ok=True)
        JobOutput(stdouts={"oldname": "old output\n" * 2000}, stderrs={"oldname": "x" * 5000}, exitcode=0, files={"old.dat": b"z" * 30000}).dump(
            os.path.join(outdir, "thejob.out"))
        with open(os.path.join(outdir, "thejob.out"), "rb") as f_:
            stale_report = f_.read()
        res.stats["probe:longer_files_of_an_earlier_run_in_place"] += 1
    ji.dump(inp)
    n = len(cmds)

    def behaviour(argv, rec, fe):
        i = int(os.path.basename(argv[0])[4:])
        act = {"out": f"stdout of command {i} of {plan['jid']}\n", "err": f"stderr of command {i}\nsecond line\n", "rc": 0, "files": {}}
        if kill_at is not None and i == kill_at:
            return {"kill": True, "rc": -9}
        for x in plan["returns"]:
            if x["by"] == i and x["name"] not in missing:
                act["files"][x["name"]] = _ret_bytes(plan, x)
        for x in plan["returns"]:
            if x["by"] == "input" and x["name"] in missing and i == 0:
                act.setdefault("delete", []).append(x["name"])
        if fail is not None and i == fail[0]:
            if fail[1] == "slow":
                # this command needs far longer than the job's `timeout`: a runner that enforces the timeout sees it fail, a
                # runner that does not (the field is optional) sees it succeed - both are judged by what they did
                act["duration"] = 10.0
                return act
            if fail[1] == "nostart":
                # the program cannot be started at all: subprocess.run raises instead of returning
                return {"raise": FileNotFoundError(2, "No such file or directory", argv[0]), "files": {}}
            act["rc"] = fail[2]
        return act

    fe = FakeExec(behaviour)
    sp = SimSpawn()
    twin_info = {}
    if twin:
        # While command 0 of this job executes, ANOTHER job with the same job id (same scratch directory) runs from
        # start to end - two conformers of one ensemble do exactly that under jobmap with several workers.
        inp2 = os.path.join(root, "twin.inp")
        ji.dump(inp2)

        def hook(argv, rec):
            if twin_info or fresh_dirs or twin == "rename" or os.path.basename(argv[0]) != "prog0":
                return
            run_twin()

        def run_twin():
            twin_info["started"] = True
            fe2 = FakeExec(behaviour)
            sp2 = SimSpawn()
            saved_run = __import__("molli.pipeline.runner", fromlist=["run"]).run
            import molli.pipeline.runner as runner_mod

            runner_mod.run = fe2
            try:
                p2 = sp2(["_molli_run", inp2, "-o", outdir if twin == "rename" else os.path.join(root, "out2"), "-s", scratch], cwd=work, capture_output=True, encoding="utf8")
            finally:
                runner_mod.run = saved_run
            twin_info["rc"] = p2.returncode
            twin_info["cwds"] = sorted({r2["cwd"] for r2 in fe2.log})
            twin_info["stderr"] = (p2.stderr or "").replace(root, "<root>").replace(env.SANDBOX, "<sandbox>")[-300:]

        fe.hook = hook
    if twin == "rename":
        # the twin (same job id, SAME output directory, other input name) is scheduled exactly when this runner is about to
        # move a file into place - if it ever does (a runner that writes its report directly never reaches this point)
        def rn_hook(what, src, dst):
            if not twin_info:
                run_twin()
        sp.fs_hook = rn_hook
    runner_path = None
    if fresh_dirs:
        # ... and the second runner is scheduled exactly when the first one is about to create a directory: between
        # whatever look it had at the directory and its mkdir
        from ..stubs.jobsim import hook_path_class

        def fs_hook(path_, what):
            if what == "mkdir" and not twin_info and os.fspath(path_) in (scratch, outdir):
                run_twin()

        runner_path = hook_path_class(fs_hook)
    old_path = os.environ.get("PATH", "")
    if plan.get("runner_path_shadow"):
        import stat as _stat

        bindir = os.path.join(root, "runnerbin")
        os.makedirs(bindir)
        for i_ in range(len(cmds)):
            fn_ = os.path.join(bindir, f"prog{i_}")
            with open(fn_, "w") as f_:
                f_.write("#!/bin/sh\nexit 0\n")
            os.chmod(fn_, os.stat(fn_).st_mode | _stat.S_IXUSR)
        os.environ["PATH"] = bindir + os.pathsep + old_path
        res.stats["probe:same_program_names_on_the_runners_PATH"] += 1
    try:
        ambient = dict(os.environ)
        with pipeline_seams(fe, sp, runner_path=runner_path):
            cwd0 = os.getcwd()
            o_arg, s_arg = outdir, scratch
            if plan.get("relative_dirs") and not fresh_dirs:
                # the directories are given relative to the directory the runner is started in
                o_arg, s_arg = os.path.relpath(outdir, work), os.path.relpath(scratch, work)
                res.stats["probe:directories_given_as_relative_paths"] += 1
            proc = sp(["_molli_run", inp, "-o", o_arg, "-s", s_arg], cwd=work, capture_output=True, encoding="utf8")
            if os.getcwd() != cwd0:
                raise HarnessError("SimSpawn did not restore the cwd")
    finally:
        os.environ["PATH"] = old_path
    # (paths of the per-process sandbox are taken out of everything that may end up in a detail string BEFORE anything is
    #  cut to length: a window of "the last 200 characters" must not depend on how many digits a pid has)
    def _clean(t_):
        return (t_ or "").replace(root, "<root>").replace(env.SANDBOX, "<sandbox>")
    proc.stderr, proc.stdout = _clean(proc.stderr), _clean(proc.stdout)
    if "stderr" in twin_info:
        twin_info["stderr"] = _clean(twin_info["stderr"])
    res.evals += 1
    def viol(clause, detail):
        res.violate(clause, f"C17|{clause}|{sigctx}", f"{detail} [jid={plan['jid']} commands={cmds} fail={fail} missing={sorted(missing)} kill_at={kill_at} "
                                                      f"exit={proc.returncode} stderr={proc.stderr[-300:]!r}]")

    if not fe.log and kill_at is None:
        if proc.returncode == 0 or "subprocess.py" in (proc.stderr or ""):
            # nothing went through the external-program seam (the real subprocess machinery shows in the traceback)
            raise HarnessError("SEAM-LOST molli.pipeline.runner.run: no command reached FakeExec")
        # the runner itself gave up before its first command
        return viol("exit-status", f"the runner ended with status {proc.returncode} before it ran any command")

    if slow:
        res.stats["probe:command_slower_than_the_jobs_timeout"] += 1
        if not any(r_.get("timeout") is not None for r_ in fe.log):
            fail = None          # the runner does not enforce timeouts: every command ran to completion and succeeded
    if fresh_dirs:
        res.stats["probe:two_runners_create_the_directories_together"] += 1
        if not twin_info:
            raise HarnessError("SEAM-LOST molli.pipeline.runner.Path: the runner created its directories without going through Path.mkdir")
        if proc.returncode != 0 or twin_info.get("rc") != 0:
            return viol("exit-status", f"two runners that had to create the scratch / output directories at the same time: exit {proc.returncode} and "
                                       f"{twin_info.get('rc')} although every command succeeds (stderr {proc.stderr[-200:]!r} / {twin_info.get('stderr')!r})")
    if twin == "rename":
        if twin_info:
            res.stats["probe:second_runner_scheduled_at_a_rename"] += 1
            t_out = os.path.join(outdir, "twin.out")
            if twin_info.get("rc") != 0 or proc.returncode != 0 or not os.path.isfile(t_out) or not os.path.isfile(os.path.join(outdir, "thejob.out")):
                return viol("output-file", f"two runners of jobs with the same job id writing their reports into one output directory: exit {proc.returncode} and "
                                           f"{twin_info.get('rc')}, directory holds {sorted(os.listdir(outdir)) if os.path.isdir(outdir) else None} "
                                           f"(stderr {proc.stderr[-200:]!r} / {twin_info.get('stderr')!r})")
            try:
                if JobOutput.load(t_out).input_hash != ji.hash or JobOutput.load(os.path.join(outdir, "thejob.out")).input_hash != ji.hash:
                    return viol("input-hash", "a report written next to another runner's carries the wrong input hash")
            except Exception as e_:  # noqa: BLE001
                return viol("output-file", f"a report written next to another runner's is unreadable: {e_!r}")
        twin = False      # from here on: judged like a plain run
    if twin:
        res.stats["probe:two_jobs_same_jid_overlap"] += 1
        mine = sorted({r_["cwd"] for r_ in fe.log})
        if twin_info.get("rc") != proc.returncode or set(twin_info.get("cwds", [])) & set(mine):
            return viol("private-directory", f"a second job with the same job id ran while this one was in its first command: "
                                             f"directories {mine} vs {twin_info.get('cwds')}, exit {proc.returncode} vs {twin_info.get('rc')} "
                                             f"(twin stderr {twin_info.get('stderr')!r})")
    # ---- what ran
    ran = [int(os.path.basename(r_["argv"][0])[4:]) for r_ in fe.log]
    last = n - 1 if fail is None else fail[0]
    if kill_at is not None:
        last = kill_at
    want_ran = list(range(last + 1))
    if ran != want_ran:
        return viol("commands-run", f"commands executed {ran}, expected {want_ran} (in order, stopping at the first failure)")
    for i, r_ in enumerate(fe.log):
        if r_["argv"] != shlex.split(cmds[i][0]):
            return viol("command-argv", f"command {i} ran as {r_['argv']} instead of {shlex.split(cmds[i][0])}")
    # ---- where
    cwds = {r_["cwd"] for r_ in fe.log}
    if len(cwds) > 1:
        return viol("private-directory", f"commands ran in different directories {sorted(cwds)}")
    if fe.log:
        d = os.path.realpath(fe.log[0]["cwd"])
        sc = os.path.realpath(scratch)
        if not d.startswith(sc + os.sep) or d == os.path.join(sc, plan["jid"] + "__foreign"):
            return viol("private-directory", f"commands ran in {d}, not in a private directory inside the requested scratch directory {sc}")
        # (the directory a command runs in is the cwd it is started with - or, failing that, the runner's own; where the
        #  RUNNER process stands meanwhile is not the statement's business)
        # ---- input files before command 0
        c0 = fe.log[0]["contents"]
        for fn, spec in plan["files"].items():
            if c0.get(fn) != _file_bytes(spec):
                return viol("input-files", f"input file {fn!r} before the first command holds {c0.get(fn)!r:.80} instead of {_file_bytes(spec)!r:.80}")
        # (helper files of the runner's own in that directory - a marker, a copy of the job - are its business: privacy is
        #  judged where it can be violated, by the overlapping-twin cases and by the residue clause)
        # ---- environment
        want_env = dict(ambient)
        if plan["envars"]:
            want_env.update(plan["envars"])
        for i, r_ in enumerate(fe.log):
            got_env = r_["env"] if r_["env"] is not None else dict(ambient)      # env=None: the child inherits the runner's
            # every ambient variable and every override must arrive with its value; variables the runner ADDS for the
            # commands (a job id, a thread count default) are not forbidden by the statement
            diff = {k: (got_env.get(k), v) for k, v in want_env.items() if got_env.get(k) != v}
            if diff:
                return viol("environment", f"command {i} saw an environment differing from ambient+envars in {diff}")
    # ---- scratch residue (also when the runner was killed the statement's 'no residue' is about normal exits only)
    left = sorted(os.listdir(scratch)) if os.path.isdir(scratch) else []
    if kill_at is None and left != ([] if fresh_dirs else [plan["jid"] + "__foreign"]):
        return viol("scratch-residue", f"scratch directory holds {left} afterwards")
    if not fresh_dirs and not os.path.isfile(os.path.join(scratch, plan["jid"] + "__foreign", "keep.txt")):
        return viol("scratch-residue", "another job's directory in the scratch directory was damaged")
    if kill_at is not None:
        if proc.returncode == 0:
            return viol("exit-status", "runner killed mid-command but exit status 0")
        return
    if fail is not None and fail[1] in ("nostart", "slow"):
        # A command that cannot even be started (or is killed because it exceeded the job's timeout) is a failing command.  How much of a report a runner still manages to
        # write is its own business (the unchanged one dies with a traceback), but it must not claim success anywhere.
        if proc.returncode == 0:
            return viol("exit-status", f"a command {'could not be started' if fail[1] == 'nostart' else 'was killed after the timeout'} but the exit status is 0")
        outf_ = os.path.join(outdir, "thejob.out")
        if os.path.isfile(outf_):
            with open(outf_, "rb") as f_:
                if f_.read() == stale_report:
                    return      # the report of the earlier run, untouched: this runner wrote nothing (and claimed nothing)
            try:
                jo_ = JobOutput.load(outf_)
            except Exception:  # noqa: BLE001
                return
            if jo_.exitcode == 0:
                return viol("exit-status", f"a command {'could not be started' if fail[1] == 'nostart' else 'was killed after the timeout'}, exit status {proc.returncode}, but the JobOutput records exit code 0 "
                                           f"(files {sorted(jo_.files or {})})")
        return
    # ---- the report
    outf = os.path.join(outdir, "thejob.out")
    if not os.path.isfile(outf):
        return viol("output-file", f"no JobOutput file was written (outdir: {os.listdir(outdir) if os.path.isdir(outdir) else 'missing'})")
    try:
        jo = JobOutput.load(outf)
    except Exception as e:  # noqa: BLE001
        return viol("output-file", f"JobOutput file unreadable: {e!r}")
    named_ran = [nm for i, (_, nm) in enumerate(cmds) if nm and i <= last]
    if sorted(jo.stdouts or {}) != sorted(named_ran) or sorted(jo.stderrs or {}) != sorted(named_ran):
        return viol("captured-streams", f"stdouts for {sorted(jo.stdouts or {})} / stderrs for {sorted(jo.stderrs or {})}, expected the named commands that ran {sorted(named_ran)}")
    for i, (_, nm) in enumerate(cmds):
        if nm and i <= last:
            if jo.stdouts[nm] != f"stdout of command {i} of {plan['jid']}\n" or jo.stderrs[nm] != f"stderr of command {i}\nsecond line\n":
                return viol("captured-streams", f"command {nm!r}: stdout {jo.stdouts[nm]!r} stderr {jo.stderrs[nm]!r}")
    want_files = {}
    for x in plan["returns"]:
        if x["by"] == "input":
            if x["name"] not in missing:
                want_files[x["name"]] = _file_bytes(plan["files"][x["name"]])
        elif x["by"] <= last and x["name"] not in missing:
            want_files[x["name"]] = _ret_bytes(plan, x)
    if dict(jo.files or {}) != want_files:
        return viol("returned-files", f"files returned {sorted(jo.files or {})} expected {sorted(want_files)}"
                    + "".join(f"; {k}: {(jo.files or {}).get(k)!r:.60} != {v!r:.60}" for k, v in want_files.items() if (jo.files or {}).get(k) != v))
    if jo.input_hash != ji.hash:
        return viol("input-hash", f"output carries hash {jo.input_hash!r}, the input's is {ji.hash!r}")
    all_ok = fail is None and set(want_files) == {x["name"] for x in plan["returns"]}
    if (proc.returncode == 0) != all_ok:
        return viol("exit-status", f"exit status {proc.returncode} although " + ("every command succeeded and every requested file exists" if all_ok else
                                                                             "a command failed or a requested file is missing"))


def _drivers(plan, res):
    from molli.pipeline import Job, JobInput
    from molli.pipeline.driver import DriverBase

    spec = plan["drivers"]
    jl = spec["job_level"]

    class Drv(DriverBase):
        @Job(return_files=("r.txt",), **jl).prep
        def calc(self, x, flag="f0"):
            return JobInput(str(x), commands=[(f"{self.executable} -n {self.nprocs} -m {self.memory} --flag {flag} {x}", "main")],
                            envars=dict(self.envars or {}), return_files=self.return_files)

        @calc.post
        def calc(self, out, x, flag="f0"):
            return out

        # the per-conformer ("vectorised") form of the same job: every JobInput it yields carries the same settings
        calc_vec = Job.vectorize(calc)

    cls_env = spec.get("class_envars")
    if cls_env:
        # class-level defaults of the driver class: every instance starts from them, none may add to them
        Drv.envars = dict(cls_env)
        res.stats["probe:driver_class_level_envars"] += 1

    class Sub(Drv):
        pass

    class DefDrv(Drv):
        default_executable = "defexe"     # used when an instance is created without an executable

    if jl:
        res.stats["probe:driver_job_level_override"] += 1
    inst = []
    for s in spec["instances"]:
        cls = Sub if s["subclass"] else Drv
        if s["subclass"]:
            res.stats["probe:driver_subclass_instance"] += 1
        inst.append(cls(executable=s["executable"], nprocs=s["nprocs"], memory=s["memory"], envars=s["envars"], check_exe=False, find=False))
    # one more instance, of a class with a default executable, created WITHOUT one
    spec = dict(spec, instances=list(spec["instances"]) + [{"executable": "defexe", "nprocs": 5, "memory": None, "envars": {"DEF": "1"}, "subclass": False}])
    inst.append(DefDrv(nprocs=5, envars={"DEF": "1"}, check_exe=False, find=False))
    k = len(inst)
    seqs = []
    for L in (1, 2, 3, 4):
        seqs.extend(itertools.product(range(k), repeat=L))
    seqs = seqs[:120]
    for seq in seqs:
        # a fresh class per sequence would hide history effects between sequences; history across sequences is
        # part of "whatever was used before", so the same instances are reused on purpose
        for pos, di in enumerate(seq):
            d, s = inst[di], spec["instances"][di]
            flag = f"F{pos}"
            if pos == 1 and len(seq) % 2:
                # somebody looks at the job through the CLASS in between (help(), hasattr, inspect): nobody's settings change
                import inspect

                _ = (Drv.calc.__doc__, hasattr(Sub, "calc"), Drv.calc_vec.name, [n_ for n_, _v in inspect.getmembers(DefDrv) if n_ == "calc"])
                res.stats["probe:driver_job_looked_at_through_the_class"] += 1
            ji = d.calc.prepare(f"item{di}", flag=flag)
            res.evals += 1
            exe = jl.get("executable") or s["executable"]
            npr = jl.get("nprocs") or s["nprocs"] or 1
            mem = s["memory"] or 1000
            want_cmd = f"{exe} -n {npr} -m {mem} --flag {flag} item{di}"
            want_env = dict(cls_env or {})
            want_env.update(s["envars"] or {})
            want_env.update(jl.get("envars") or {})
            got_cmd = ji.commands[0][0]
            if got_cmd != want_cmd:
                fields = []
                g, w = got_cmd.split(), want_cmd.split()
                if g[0] != w[0]:
                    fields.append("executable")
                if g[2] != w[2]:
                    fields.append("nprocs")
                if g[4] != w[4]:
                    fields.append("memory")
                if g[5:] != w[5:]:
                    fields.append("arguments")
                res.violate("driver-settings", f"C17|driver-settings|field={'+'.join(fields)}",
                            f"instance #{di} ({s}) used at position {pos} of sequence {seq}: command {got_cmd!r}, expected {want_cmd!r}")
                return
            if dict(ji.envars or {}) != want_env:
                res.violate("driver-settings", "C17|driver-settings|field=envars",
                            f"instance #{di} ({s}) used at position {pos} of sequence {seq}: envars {ji.envars!r}, expected {want_env!r}")
                return
            # what a caller does with the objects it was handed (adding a variable for this one job, say) stays with those
            # objects: neither the driver nor later jobs built through it may notice
            bound_ = d.calc
            if isinstance(getattr(bound_, "envars", None), dict):
                bound_.envars["ONLY_FOR_THIS_JOB"] = f"{di}.{pos}"
            if isinstance(ji.envars, dict):
                ji.envars["ALSO_ONLY_FOR_THIS_JOB"] = "1"
            leaked = [n_ for n_ in ("ONLY_FOR_THIS_JOB", "ALSO_ONLY_FOR_THIS_JOB")
                      if n_ in (d.envars or {}) or n_ in (getattr(type(d), "envars", None) or {}) or n_ in (d.calc.envars or {})]
            if leaked:
                res.violate("driver-settings", "C17|driver-settings|callers-change-leaks-into-the-driver",
                            f"instance #{di} ({s}) at position {pos} of sequence {seq}: variables {leaked} that a caller added to the bound job / "
                            f"the JobInput it was handed now belong to the driver (envars {d.envars!r}) or to the next bound job")
                return
            if pos % 2:
                vin = list(d.calc_vec.prepare([f"item{di}", f"item{di}"], flag=flag))
                res.stats["probe:driver_vectorised_job"] += 1
                if len(vin) != 2 or any(v.commands[0][0] != want_cmd or dict(v.envars or {}) != want_env for v in vin):
                    res.violate("driver-settings", "C17|driver-settings|vectorised-job",
                                f"instance #{di} ({s}) at position {pos} of sequence {seq}: the vectorised job built "
                                f"{[(v.commands[0][0], v.envars) for v in vin]!r}, expected 2 x ({want_cmd!r}, {want_env!r})")
                    return
        if len(set(seq)) >= 2:
            res.stats["probe:driver_second_instance_used_after_first"] += 1
            res.keys.append("drv|" + digest((spec, seq)))
    # ---- churn: drivers that were used and then dropped are "other drivers used before" too.  A pool of short-lived
    # instances with distinct settings is created, used once and released; a second pool is then created (CPython hands
    # the released addresses to the new objects) and used.  Which addresses get reused is up to the allocator, so the
    # verdict is kept independent of it: every driver is used, and at most ONE violation with a generic text is reported.
    import gc

    def pool(tag, n=48):
        bad = 0
        ds = []
        for rnd in range(n):
            s_ = spec["instances"][rnd % k]
            cls = Sub if (rnd % 5 == 0) else Drv
            ds.append((rnd, s_, cls(executable=f"{s_['executable']}_{tag}{rnd}", nprocs=1 + (rnd * 7) % 9, memory=s_["memory"],
                                    envars={f"CHURN_{tag}": str(rnd)}, check_exe=False, find=False)))
        for rnd, s_, d in ds:
            ji = d.calc.prepare(f"churn{rnd}", flag="C")
            res.stats["probe:driver_created_used_dropped"] += 1
            exe = jl.get("executable") or f"{s_['executable']}_{tag}{rnd}"
            npr = jl.get("nprocs") or (1 + (rnd * 7) % 9)
            mem = s_["memory"] or 1000
            want_env = dict(cls_env or {})
            want_env.update({f"CHURN_{tag}": str(rnd)})
            want_env.update(jl.get("envars") or {})
            if ji.commands[0][0] != f"{exe} -n {npr} -m {mem} --flag C churn{rnd}" or dict(ji.envars or {}) != want_env:
                bad += 1
        del ds      # (released by reference counting; the id() seam hands their identities to the next objects that ask)
        return bad

    # ---- executables found through PATH: a driver created with find=True carries what PATH resolved to AT ITS creation,
    # whatever earlier drivers of the same program name resolved to (or failed to resolve) under another PATH
    import stat

    pdir = os.path.join(env.SANDBOX, f"c17-path-{os.getpid()}")
    shutil.rmtree(pdir, ignore_errors=True)
    old_path = os.environ.get("PATH", "")
    try:
        for sub in ("binA", "binB"):
            os.makedirs(os.path.join(pdir, sub))
            fn = os.path.join(pdir, sub, "simprog")
            with open(fn, "w") as f:
                f.write("#!/bin/sh\nexit 0\n")
            os.chmod(fn, os.stat(fn).st_mode | stat.S_IXUSR)
        steps = [("", None), ("binA", "binA"), ("binB", "binB"), ("binA:binB", "binA"), ("", None), ("binB:binA", "binB")]
        for k_, (pth, want_dir) in enumerate(steps):
            os.environ["PATH"] = os.pathsep.join(os.path.join(pdir, x) for x in pth.split(":") if x)
            res.evals += 1
            res.stats["probe:driver_found_through_PATH"] += 1
            try:
                d = Drv(executable="simprog", nprocs=2, check_exe=True, find=True)
                got = d.calc.prepare("pathitem", flag="P").commands[0][0].split()[0]
            except FileNotFoundError:
                got = None
            want = None if want_dir is None else os.path.join(pdir, want_dir, "simprog")
            if jl.get("executable") and got is not None:
                want = jl["executable"] if want is not None else None
            if got != want:
                res.violate("driver-settings", "C17|driver-settings|executable-resolved-through-PATH",
                            f"step {k_}: with PATH={pth!r} a new driver for 'simprog' built a command starting with "
                            f"{(got or 'FileNotFoundError').replace(pdir, '<pathdir>')!r}, expected {(want or 'FileNotFoundError').replace(pdir, '<pathdir>')!r} "
                            f"(earlier drivers of the same name were created under other PATH values)")
                break
    finally:
        os.environ["PATH"] = old_path
        shutil.rmtree(pdir, ignore_errors=True)

    res.evals += 96
    bad = pool("a") + pool("b")
    if cls_env and Drv.envars != cls_env:
        res.violate("driver-settings", "C17|driver-settings|class-defaults-modified",
                    f"the class-level envars of the driver class were {cls_env!r} and are {Drv.envars!r} after its instances were used")
    if bad:
        res.violate("driver-settings", "C17|driver-settings|after=earlier-drivers-released",
                    "after a pool of drivers had been used and released, a newly created driver with other settings built a JobInput "
                    "carrying the executable / nprocs / envars of a released one (settings must not be remembered per object address)")


def run_plan(plan, trace=False):
    res = RunResult()
    res.evals = 0
    root = os.path.join(env.SANDBOX, f"c17-{os.getpid()}")
    n = len(plan["commands"])
    rets = [x["name"] for x in plan["returns"]]
    base_digest = digest({k: plan[k] for k in ("jid", "commands", "files", "returns", "envars", "return_files_none")})
    if any(c["name"] is None for c in plan["commands"]):
        res.stats["probe:unnamed_command"] += 1
    if any("hex" in v for v in plan["files"].values()):
        res.stats["probe:binary_input_file"] += 1
    if any(x["by"] == "input" for x in plan["returns"]):
        res.stats["probe:return_file_is_input_file"] += 1
    if not rets:
        res.stats["probe:no_return_files_requested"] += 1
    fails = [None] + [(i, k, c) for i in range(n) for (k, c) in FAIL_KINDS]
    subsets = [frozenset(s) for L in range(len(rets) + 1) for s in itertools.combinations(rets, L)]
    only = plan.get("only")
    try:
        cases = []
        for fail in fails:
            for miss in subsets:
                cases.append((fail, miss, None))
        for i in range(n):
            cases.append((None, frozenset(), i))
        cases.append((None, frozenset(), "twin"))
        cases.append((None, frozenset(), "twin_fs"))
        cases.append((None, frozenset(), "twin_rename"))
        if only is not None:
            cases = [(tuple(only["fail"]) if only["fail"] else None, frozenset(only["missing"]), only["kill_at"])]
        for (fail, miss, kill_at) in cases:
            if fail is None and kill_at is None:
                res.stats["probe:all_commands_succeed"] += 1
            elif kill_at in ("twin", "twin_fs", "twin_rename"):
                pass
            elif kill_at is not None:
                res.stats["probe:runner_killed_mid_command"] += 1
            else:
                pos = "first" if fail[0] == 0 else ("last" if fail[0] == n - 1 else "middle")
                res.stats[f"probe:{pos}_command_fails"] += 1
                if fail[1] == "sig":
                    res.stats["probe:death_by_signal"] += 1
                if fail[1] == "nostart":
                    res.stats["probe:command_cannot_be_started"] += 1
            if miss:
                res.stats["probe:return_file_missing"] += 1
                if len(miss) == len(rets):
                    res.stats["probe:all_return_files_missing"] += 1
            fcls = "none" if fail is None else (("first" if fail[0] == 0 else "later") + "/" + ("signal" if fail[1] == "sig" else fail[1] if fail[1] in ("nostart", "slow") else "rc"))
            if kill_at is not None:
                fcls = "runner-killed" if kill_at not in ("twin", "twin_fs", "twin_rename") else kill_at
            sigctx = f"fail={fcls}|missing={'none' if not miss else ('all' if len(miss) == len(rets) else 'some')}|returns={'none' if not rets else 'some'}"
            nv = len(res.violations)
            if kill_at == "twin":
                _exec_one(plan, None, miss, None, root, res, "overlap=same-jid-twin", twin=True)
            elif kill_at == "twin_fs":
                _exec_one(plan, None, miss, None, root, res, "overlap=directory-creation", twin="fs")
            elif kill_at == "twin_rename":
                _exec_one(plan, None, miss, None, root, res, "overlap=moving-the-report-into-place", twin="rename")
            else:
                _exec_one(plan, fail, miss, kill_at, root, res, sigctx)
            for v in res.violations[nv:]:
                v["hint"] = {"fail": list(fail) if fail else None, "missing": sorted(miss), "kill_at": kill_at}
            if fail is not None or miss or kill_at is not None:
                res.keys.append(f"{base_digest}|{fail}|{sorted(miss)}|{kill_at}")
            if len(res.violations) >= 6:
                break
        if only is None:
            with pipeline_seams(FakeExec(lambda *a: {}), SimSpawn()):
                _drivers(plan, res)
    except HarnessError:
        raise
    except Exception as e:  # noqa: BLE001
        import traceback

        site = traceback.extract_tb(e.__traceback__)[-1]
        res.violate("job-machinery-raises", f"C17|raises|{type(e).__name__}|{site.name}",
                    f"{e!r} at {site.filename.split('/')[-1]}:{site.lineno} ({site.name})")
    finally:
        shutil.rmtree(root, ignore_errors=True)
    for v in res.violations:
        v["detail"] = v["detail"].replace(root, "<root>").replace(env.SANDBOX, "<sandbox>")
    res.digest = digest((res.evals, [(v["signature"], v["detail"]) for v in res.violations], sorted(res.stats.items())))
    res.sample = {"jid": plan["jid"], "commands": plan["commands"], "files": sorted(plan["files"]), "returns": plan["returns"],
                  "envars": plan["envars"], "executions": res.evals, "drivers": plan["drivers"]}
    if trace:
        res.trace = [f"base job: {res.sample}"] + [f"VIOLATED {v['clause']}: {v['detail']}" for v in res.violations[:6]]
    return res


def shrink_candidates(plan):
    if "only" not in plan:
        r = run_plan(plan)
        for v in r.violations:
            if "hint" in v:
                p = copy.deepcopy(plan)
                p["only"] = v["hint"]
                yield p
                break
    base = copy.deepcopy(plan)
    base.pop("only", None)
    if len(plan["commands"]) > 1:
        for i in range(len(plan["commands"]) - 1, -1, -1):
            p = copy.deepcopy(base)
            del p["commands"][i]
            for j, c in enumerate(p["commands"]):
                c["prog"] = f"prog{j}"
            p["returns"] = [x for x in p["returns"] if x["by"] == "input" or x["by"] < len(p["commands"])]
            yield p
    for fn in sorted(plan["files"]):
        p = copy.deepcopy(base)
        del p["files"][fn]
        p["returns"] = [x for x in p["returns"] if x["name"] != fn]
        yield p
    for i in range(len(plan["returns"])):
        p = copy.deepcopy(base)
        del p["returns"][i]
        yield p
    if plan["envars"]:
        p = copy.deepcopy(base)
        p["envars"] = None
        yield p
    if len(plan["drivers"]["instances"]) > 2:
        p = copy.deepcopy(base)
        p["drivers"]["instances"] = p["drivers"]["instances"][:2]
        yield p
    if plan["drivers"]["job_level"]:
        p = copy.deepcopy(base)
        p["drivers"]["job_level"] = {}
        yield p
