"""Seam installation: replace the module-level names through which molli (and
fasteners) reach the file system, the fcntl layer, the clock and atexit, for the
duration of one simulated run.  Nothing in /repo changes.
"""
from __future__ import annotations

import contextlib
import sys

from . import kernel as K


class SimLockMech:
    """Replaces fasteners.process_lock._interprocess_reader_writer_mechanism
    (the fcntl.lockf layer) with the simulated kernel's record-lock table."""

    @staticmethod
    def trylock(lockfile, exclusive):
        K.CURRENT.counters["seam:trylock"] += 1
        return K.CURRENT.lock_try(lockfile, exclusive)

    @staticmethod
    def unlock(lockfile):
        K.CURRENT.lock_unlock(lockfile)

    @staticmethod
    def get_handle(path):
        if isinstance(path, bytes):
            path = path.decode()
        return K.CURRENT.lock_open(path)

    @staticmethod
    def close_handle(lockfile):
        K.CURRENT.sys_close(lockfile)


class SimTime:
    """Replaces the `time` module as seen by fasteners._utils (StopWatch, Retry)."""

    @staticmethod
    def monotonic():
        return K.CURRENT.monotonic()

    @staticmethod
    def sleep(d):
        K.CURRENT.sleep(d)


def _sim_sleep(d):
    K.CURRENT.sleep(d)


class SimAtexit:
    @staticmethod
    def register(fn, *a, **kw):
        k = K.CURRENT
        if k is not None:
            k.register_atexit(fn, *a, **kw)
        return fn

    @staticmethod
    def unregister(fn):
        return None


def _mk_fsync(real):
    def fsync(fd):
        k = K.CURRENT
        if k is not None and isinstance(fd, int) and fd >= K.SIM_FD_BASE:
            f = k.fdtab.get(fd - K.SIM_FD_BASE)
            if f is None:
                if k.finished or k.cur_pid in k.dead:
                    raise K.SimCrash()
                raise OSError(9, "Bad file descriptor")
            return k.sys_fsync(f)
        if hasattr(fd, "fileno") and not isinstance(fd, int):
            return fsync(fd.fileno())
        return real(fd)
    return fsync


def _sim_stat_result(size):
    import os
    import stat as _stat

    return os.stat_result((_stat.S_IFREG | 0o644, 0, 0, 1, 0, 0, size, 0, 0, 0))


def _mk_fstat(real):
    def fstat(fd):
        k = K.CURRENT
        if k is not None and isinstance(fd, int) and fd >= K.SIM_FD_BASE:
            f = k.fdtab.get(fd - K.SIM_FD_BASE)
            if f is None:
                if k.finished or k.cur_pid in k.dead:
                    raise K.SimCrash()
                raise OSError(9, "Bad file descriptor")
            return _sim_stat_result(k.sys_fstat(f))
        return real(fd)
    return fstat


def _sim_fd(fd):
    """The simulated descriptor behind an os-level descriptor number, or None for a real one."""
    k = K.CURRENT
    if k is None or not isinstance(fd, int) or fd < K.SIM_FD_BASE:
        return None, None
    f = k.fdtab.get(fd - K.SIM_FD_BASE)
    if f is None:
        if k.finished or k.cur_pid in k.dead:
            raise K.SimCrash()
        raise OSError(9, "Bad file descriptor")
    return k, f


def _mk_fd_calls(real_os):
    """os.pwrite / pread / write / read / lseek / ftruncate on simulated descriptors (code that goes below the file object)."""
    def pwrite(fd, data, offset):
        k, f = _sim_fd(fd)
        if f is None:
            return real_os["pwrite"](fd, data, offset)
        keep = f.pos
        f.pos = offset
        try:
            return k.sys_write(f, bytes(data))
        finally:
            f.pos = keep

    def pread(fd, n, offset):
        k, f = _sim_fd(fd)
        if f is None:
            return real_os["pread"](fd, n, offset)
        keep = f.pos
        f.pos = offset
        try:
            return k.sys_read(f, n)
        finally:
            f.pos = keep

    def write(fd, data):
        k, f = _sim_fd(fd)
        return real_os["write"](fd, data) if f is None else k.sys_write(f, bytes(data))

    def read(fd, n):
        k, f = _sim_fd(fd)
        return real_os["read"](fd, n) if f is None else k.sys_read(f, n)

    def lseek(fd, pos, how):
        k, f = _sim_fd(fd)
        return real_os["lseek"](fd, pos, how) if f is None else k.sys_seek(f, pos, how)

    def ftruncate(fd, length):
        k, f = _sim_fd(fd)
        if f is None:
            return real_os["ftruncate"](fd, length)
        k.sys_truncate(f, length)

    return {"pwrite": pwrite, "pread": pread, "write": write, "read": read, "lseek": lseek, "ftruncate": ftruncate}


def _is_sim_path(k, path):
    """Paths inside the simulated namespace: everything under the kernel's root directory (the check's working directory,
    where no real regular file ever lives)."""
    if k is None or isinstance(path, (int, bytes)):
        return False
    try:
        p = k.norm(path)
    except TypeError:
        return False
    return p == k.root or p.startswith(k.root.rstrip("/") + "/")


def _mk_path_calls(real_os, real_fdopen):
    """os-level calls that take PATHS (code that goes below pathlib / open): os.open, replace, rename, remove, unlink,
    truncate, listdir on the simulated namespace; os.close and os.fdopen for the descriptors os.open handed out."""
    import os as _os

    def os_open(path, flags, mode=0o777, *a, **kw):
        k = K.CURRENT
        if not _is_sim_path(k, path):
            return real_os["open"](path, flags, mode, *a, **kw)
        k.counters["seam:open"] += 1
        acc = flags & (_os.O_RDONLY | _os.O_WRONLY | _os.O_RDWR)
        exists = k.norm(path) in k.files
        if flags & _os.O_CREAT and flags & _os.O_EXCL:
            m = "x+b"
        elif flags & _os.O_TRUNC and (flags & _os.O_CREAT or exists):
            m = "w+b"
        elif flags & _os.O_CREAT and not exists:
            m = "x+b"
        elif acc == _os.O_RDONLY:
            m = "rb"
        else:
            m = "r+b"
        fd = k.sys_open(path, m)
        if acc == _os.O_WRONLY:
            fd.readable = False
        if acc == _os.O_RDONLY:
            fd.writable = False
        if flags & _os.O_APPEND:
            fd.append = True
        return K.SIM_FD_BASE + fd.fd

    def os_close(fd):
        k, f = _sim_fd(fd)
        return real_os["close"](fd) if f is None else k.sys_close(f)

    def fdopen(fd, mode="r", buffering=-1, *a, **kw):
        k, f = _sim_fd(fd) if isinstance(fd, int) else (None, None)
        if f is None:
            return real_fdopen(fd, mode, buffering, *a, **kw)
        return K.sim_open(fd, mode if "b" in mode else mode + "b", buffering)

    def two(name, op):
        def fn(src, dst, *a, **kw):
            k = K.CURRENT
            if _is_sim_path(k, src) and _is_sim_path(k, dst):
                return k.sys_rename(src, dst)
            return real_os[name](src, dst, *a, **kw)
        return fn

    def one(name):
        def fn(path, *a, **kw):
            k = K.CURRENT
            if _is_sim_path(k, path) and k.norm(path) in k.files:
                return k.sys_unlink(path)
            return real_os[name](path, *a, **kw)
        return fn

    def truncate(path, length):
        k = K.CURRENT
        if isinstance(path, int) or not _is_sim_path(k, path) or k.norm(path) not in k.files:
            return real_os["truncate"](path, length)
        fd = k.sys_open(path, "r+b")
        try:
            k.sys_truncate(fd, length)
        finally:
            k.sys_close(fd)

    def listdir(path="."):
        k = K.CURRENT
        names = real_os["listdir"](path)
        if _is_sim_path(k, path):
            d = k.norm(path).rstrip("/") + "/"
            names = sorted(set(names) | {p_[len(d):] for p_ in k.files if p_.startswith(d) and "/" not in p_[len(d):]})
        return names

    return {"open": os_open, "close": os_close, "fdopen": fdopen, "replace": two("replace", "rename"), "rename": two("rename", "rename"),
            "remove": one("remove"), "unlink": one("unlink"), "truncate": truncate, "listdir": listdir}


def _mk_realpath(real):
    """os.path.realpath that knows the SIMULATED symbolic links too (a lock name derived from realpath() instead of
    Path.resolve() must see the same aliasing)."""
    def realpath(path, *a, **kw):
        k = K.CURRENT
        if k is not None and k.symlinks and not isinstance(path, (bytes, int)):
            try:
                return k.norm(path)
            except TypeError:
                pass
        return real(path, *a, **kw)
    return realpath


def _mk_stat(real):
    def stat(path, *a, **kw):
        k = K.CURRENT
        if k is not None and not isinstance(path, int):
            try:
                p = k.norm(path)
            except TypeError:
                p = None
            if p is not None and p in k.files:
                k.sys_stat(path)
                return _sim_stat_result(len(k.files[p]))
        return real(path, *a, **kw)
    return stat


_PATCHES = None
LOCK_ROOT = "/dev/shm/molli-verif-simlocks/shared"   # exists as an EMPTY real directory (fasteners makedirs it); no file is ever created in it


def _build_patches():
    import fasteners
    import fasteners._utils
    import fasteners.process_lock
    import molli._aux.lock
    import molli.chem.library
    import molli.config
    import molli.storage.backends
    import molli.storage.collection
    import molli.storage.ukvfile

    RealRW = fasteners.InterProcessReaderWriterLock

    class SimRWLock(RealRW):
        """The real fasteners lock class; only the sleep function is rebound, because
        fasteners binds `sleep_func=time.sleep` as a default argument at def time."""

        def __init__(self, path, sleep_func=None, logger=None):
            super().__init__(path, sleep_func=_sim_sleep, logger=logger)

    import io as _io
    import os as _os

    class _IoProxy:
        """The `io` module as the storage modules see it: `io.open` lands on the simulated disk, everything else is the
        real module (a refactoring from `path.open(...)` to `io.open(path, ...)` must not slip past the seam)."""
        open = staticmethod(K.sim_open)

        def __getattr__(self, name):
            return getattr(_io, name)

    import mmap as _mmap

    class _SimMap(bytes):
        """A read-only memory map of a simulated file: a snapshot of its bytes at mapping time (what a private read-only
        mapping of a file nobody else writes during the scan amounts to; the scan runs under the library lock)."""

        def close(self):
            return None

        def size(self):
            return len(self)

        def __enter__(self):
            return self

        def __exit__(self, *a):
            return False

    class _MmapProxy:
        def __getattr__(self, name):
            return getattr(_mmap, name)

        @staticmethod
        def mmap(fileno, length, *a, **kw):
            k, f = _sim_fd(fileno)
            if f is None:
                return _mmap.mmap(fileno, length, *a, **kw)
            access = kw.get("access", a[2] if len(a) > 2 else None)
            prot = kw.get("prot", a[1] if len(a) > 1 else None)
            if access not in (None, _mmap.ACCESS_READ) or (access is None and prot not in (_mmap.PROT_READ,)):
                raise K.HarnessError("SimFS supports read-only memory maps only")
            data = bytes(k.files.get(f.path, b""))
            k.sys_fstat(f)      # (mapping observes the file: a yield point like any other look at it)
            if length == 0 and not data:
                raise ValueError("cannot mmap an empty file")
            return _SimMap(data if length == 0 else data[:length])

    # (the name `mmap` in a module may be the module - `import mmap` - or the class - `from mmap import mmap`: the proxy
    #  answers to both)
    _MmapProxy.__call__ = lambda self, *a, **kw: _MmapProxy.mmap(*a, **kw)
    mmap_proxy = _MmapProxy()
    io_proxy = _IoProxy()
    storage_mods = (molli.storage.ukvfile, molli.storage.backends, molli.storage.collection, molli.chem.library)
    patches = [
        (_os, "fsync", _mk_fsync(_os.fsync)),
        (_os, "fdatasync", _mk_fsync(_os.fdatasync)),
        (_os, "fstat", _mk_fstat(_os.fstat)),
        (_os.path, "realpath", _mk_realpath(_os.path.realpath)),
    ] + [(_os, n_, f_) for n_, f_ in _mk_path_calls({n_: getattr(_os, n_) for n_ in ("open", "close", "replace", "rename", "remove", "unlink", "truncate", "listdir")}, _os.fdopen).items()] + [
    ] + [(_os, n_, f_) for n_, f_ in _mk_fd_calls({n_: getattr(_os, n_) for n_ in ("pwrite", "pread", "write", "read", "lseek", "ftruncate")}).items()] + [
        (_os, "stat", _mk_stat(_os.stat)),
        (molli.storage.ukvfile, "Path", K.SimPath),
        (molli.storage.backends, "Path", K.SimPath),
        (molli.storage.collection, "Path", K.SimPath),
        (molli.chem.library, "Path", K.SimPath),
        # the lock name is derived from the RESOLVED path: resolution has to see the simulated symbolic links too
        (molli._aux.lock, "Path", K.SimPath),
    ] + [(m_, "open", K.sim_open) for m_ in storage_mods] + [(m_, "io", io_proxy) for m_ in storage_mods if "io" in vars(m_)] + [(m_, "mmap", mmap_proxy) for m_ in storage_mods if "mmap" in vars(m_)] + [
        (molli.storage.backends, "InterProcessReaderWriterLock", SimRWLock),
        # ... and wherever else the code under test may construct a fasteners lock (a helper class in molli._aux.lock, say):
        # the default `sleep_func=time.sleep` is bound when fasteners is imported, so the DEFAULT itself is exchanged
        (RealRW.__init__, "__defaults__", (_sim_sleep, None)),
        (fasteners.InterProcessLock.__init__, "__defaults__", (_sim_sleep, None)),
        (molli.storage.backends, "atexit", SimAtexit),
        (fasteners.process_lock, "_interprocess_reader_writer_mechanism", SimLockMech),
        (fasteners._utils, "time", SimTime),
        # lock files are named under SHARED_DIR/lock: a constant virtual directory, so that lock-file names (and anything
        # keyed or ordered by them) are the same in every process that executes a run
        (molli.config, "SHARED_DIR", K.SimPath(LOCK_ROOT)),
    ]
    # `from os import fstat` (or `from io import open`, `from mmap import mmap`) binds the REAL function in the importing
    # module when it is imported: patching the attribute of `os` later does not reach that name.  Every name of a storage
    # module that is one of the real functions redirected above is therefore redirected in that module too.
    redirected = {id(getattr(m_, n_)): w_ for (m_, n_, w_) in patches if m_ in (_os, _os.path) and hasattr(m_, n_)}
    redirected[id(_io.open)] = K.sim_open
    redirected[id(_mmap.mmap)] = mmap_proxy.mmap
    for m_ in storage_mods + (molli._aux.lock,):
        for n_, v_ in list(vars(m_).items()):
            w_ = redirected.get(id(v_))
            if w_ is not None and not any(pm is m_ and pn == n_ for (pm, pn, _w) in patches):
                patches.append((m_, n_, w_))
    return patches


_MISSING = object()

# Module-level mutable containers of the code under test are process-global state: in production every process starts
# with the import-time value, in the simulator all runs (and all simulated processes) of one interpreter share them.
# They are put back to their import-time content at the start of every run, so that a run never depends on the runs
# that happened to precede it in the same worker.
_STATE_MODULES = ("molli._aux.lock", "molli.storage.backends", "molli.storage.ukvfile", "molli.storage.collection",
                  "molli.chem.library", "molli.chem.io", "molli.chem.ensemble", "molli.pipeline.job", "molli.pipeline.runner", "molli.pipeline.driver")
_STATE_SNAPSHOT = None


def _snapshot_module_state():
    import copy
    import sys as _sys

    snap = {}
    for mn in _STATE_MODULES:
        mod = _sys.modules.get(mn)
        if mod is None:
            continue
        for name, val in list(vars(mod).items()):
            if name.startswith("__"):
                continue
            if type(val) in (set, dict, list):
                try:
                    snap[(mn, name)] = copy.copy(val)
                except Exception:  # noqa: BLE001
                    pass
    return snap


def reset_process_state(kernel=None):
    global _STATE_SNAPSHOT
    import os
    import sys as _sys

    if _STATE_SNAPSHOT is None:
        _STATE_SNAPSHOT = _snapshot_module_state()
    # memoised functions (functools.lru_cache / cache) of the modules under test are process-global state too: every real
    # process starts with empty caches, so every run does
    for mn in _STATE_MODULES:
        mod = _sys.modules.get(mn)
        if mod is None:
            continue
        for val in list(vars(mod).values()):
            targets = [val]
            if isinstance(val, type) and getattr(val, "__module__", None) == mn:
                targets += [getattr(v_, "__func__", v_) for v_ in vars(val).values()]
            for t_ in targets:
                cc = getattr(t_, "cache_clear", None)
                if callable(cc):
                    try:
                        cc()
                        if kernel is not None:
                            kernel.counters["memo_cache_cleared"] += 1
                    except Exception:  # noqa: BLE001
                        pass
    for (mn, name), val in _STATE_SNAPSHOT.items():
        cur = getattr(_sys.modules[mn], name, None)
        if type(cur) is type(val) and cur != val:
            cur.clear()
            if isinstance(cur, list):
                cur.extend(val)
            else:
                cur.update(val)
            if kernel is not None:
                kernel.counters["module_state_reset"] += 1


@contextlib.contextmanager
def storage_seams(kernel: K.Kernel):
    """Install the storage/lock/clock seams and `kernel` for one run."""
    global _PATCHES
    if _PATCHES is None:
        _PATCHES = _build_patches()
    saved = []
    for mod, name, val in _PATCHES:
        import types as _types

        saved.append((mod, name, mod.__dict__.get(name, _MISSING) if isinstance(mod, _types.ModuleType) else getattr(mod, name, _MISSING)))
        setattr(mod, name, val)
    K.install(kernel)
    reset_process_state(kernel)
    old_hook = sys.unraisablehook

    def _hook(u):
        kernel.counters["unraisable"] += 1

    sys.unraisablehook = _hook
    try:
        yield kernel
    finally:
        kernel.finished = True
        kernel.close_all_real()
        sys.unraisablehook = old_hook
        K.install(None)
        for mod, name, old in reversed(saved):
            if old is _MISSING:
                try:
                    delattr(mod, name)
                except AttributeError:
                    pass
            else:
                setattr(mod, name, old)


def assert_seams_live(kernel: K.Kernel, need=("seam:open",)):
    for n in need:
        if kernel.counters.get(n, 0) == 0:
            raise K.HarnessError(f"SEAM-LOST {n}: the code under test no longer goes through this seam")
