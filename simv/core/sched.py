"""Seeded cooperative scheduler.

Each simulated process is a real thread that runs only while it holds the baton.
The scheduler (main thread) decides, from one PRNG, which runnable task gets the
baton at every yield point.  Virtual time advances only when nobody is runnable.
"""
from __future__ import annotations

import random
import threading

from .kernel import Kernel, SimCrash

READY, SLEEPING, DONE = "ready", "sleeping", "done"


class Task:
    __slots__ = ("pid", "fn", "thread", "sem", "state", "wake", "exc", "result", "crashed", "steps")

    def __init__(self, pid, fn):
        self.pid = pid
        self.fn = fn
        self.thread = None
        self.sem = threading.Semaphore(0)
        self.state = READY
        self.wake = 0.0
        self.exc = None
        self.result = None
        self.crashed = False
        self.steps = 0


class Scheduler:
    def __init__(self, kernel: Kernel, seed: int, strategy: dict | None = None,
                 max_steps: int = 20000, max_time: float = 600.0, trace: bool = True):
        self.k = kernel
        self.rng = random.Random(seed)
        self.strategy = strategy or {"kind": "random"}
        self.max_steps = max_steps
        self.max_time = max_time
        self.tasks: dict[int, Task] = {}
        self.main = threading.Semaphore(0)
        self.running: Task | None = None
        self.steps = 0
        self.choices: list[int] = []
        self.trace = trace
        self.cap = None  # 'steps' | 'time' | None
        self.last_pid = None
        self._prio = None
        self._change_points = None
        self.on_step = None  # callable(scheduler) run by the main thread between steps
        kernel.sched = self

    # ------------------------------------------------------------------ task side
    def spawn(self, pid: int, fn):
        t = Task(pid, fn)
        self.tasks[pid] = t
        th = threading.Thread(target=self._body, args=(t,), daemon=True, name=f"sim-{pid}")
        t.thread = th
        th.start()
        return t

    def _body(self, t: Task):
        t.sem.acquire()
        try:
            if self.k.finished or t.pid in self.k.dead:
                raise SimCrash()
            t.result = t.fn()
            # normal process exit: atexit handlers, then the OS reaps what is left
            self.k.set_phase("atexit", t.pid)
            self.k.run_atexit(t.pid)
            self.k.reap(t.pid)
        except SimCrash:
            t.crashed = True
        except BaseException as e:  # noqa: BLE001 - a task must never take the harness down
            t.exc = e
            try:
                self.k.reap(t.pid)
            except BaseException:  # noqa: BLE001
                pass
        finally:
            t.state = DONE
            self.main.release()

    def _in_task(self, pid) -> bool:
        r = self.running
        return r is not None and r.pid == pid and threading.get_ident() == r.thread.ident

    def yield_point(self, pid, op, obj):
        if not self._in_task(pid):
            return
        t = self.running
        t.state = READY
        self.main.release()
        t.sem.acquire()

    def sleep(self, pid, d: float):
        if not self._in_task(pid):
            self.k.now += d
            return
        t = self.running
        t.state = SLEEPING
        t.wake = self.k.now + d
        self.main.release()
        t.sem.acquire()

    # ------------------------------------------------------------------ strategies
    def _pick(self, runnable: list[int]) -> int:
        kind = self.strategy.get("kind", "random")
        n = len(runnable)
        if n == 1:
            return 0
        if kind == "lowest":
            return 0
        if kind == "random":
            return self.rng.randrange(n)
        if kind == "sticky":
            p = self.strategy.get("p", 0.8)
            if self.last_pid in runnable and self.rng.random() < p:
                return runnable.index(self.last_pid)
            return self.rng.randrange(n)
        if kind == "starve":
            v = self.strategy.get("victim")
            cand = [i for i, q in enumerate(runnable) if q != v]
            if cand:
                return cand[self.rng.randrange(len(cand))]
            return 0
        if kind == "pct":
            if self._prio is None:
                pids = sorted(self.tasks)
                pr = list(range(len(pids)))
                self.rng.shuffle(pr)
                self._prio = {q: float(p) for q, p in zip(pids, pr)}
                d = self.strategy.get("d", 2)
                span = self.strategy.get("span", 300)
                self._change_points = sorted(self.rng.randrange(1, span) for _ in range(d))
            while self._change_points and self._change_points[0] <= self.steps:
                self._change_points.pop(0)
                top = max(runnable, key=lambda q: self._prio[q])
                self._prio[top] = min(self._prio.values()) - 1.0
            top = max(runnable, key=lambda q: self._prio[q])
            return runnable.index(top)
        return self.rng.randrange(n)

    # ------------------------------------------------------------------ main loop
    def run(self):
        k = self.k
        while True:
            live = [t for t in self.tasks.values() if t.state != DONE]
            if not live:
                break
            if self.steps >= self.max_steps:
                self.cap = "steps"
                break
            if k.now > self.max_time:
                self.cap = "time"
                break
            runnable = sorted(t.pid for t in live
                              if t.state == READY or (t.state == SLEEPING and t.wake <= k.now))
            if not runnable:
                k.now = min(t.wake for t in live)  # all sleeping: jump the clock
                continue
            i = self._pick(runnable)
            if self.trace:
                self.choices.append(i)
            pid = runnable[i]
            self.last_pid = pid
            self._step(self.tasks[pid])
            if self.on_step is not None:
                self.on_step(self)
        self._finish()

    def _step(self, t: Task):
        self.steps += 1
        t.steps += 1
        t.state = READY
        self.running = t
        self.k.cur_pid = t.pid
        t.sem.release()
        self.main.acquire()
        self.running = None
        self.k.cur_pid = 0

    def _finish(self):
        """Unwind whatever is still parked (after a cap) so no thread outlives the run."""
        k = self.k
        k.finished = True
        for pid in sorted(self.tasks):
            t = self.tasks[pid]
            if t.state != DONE:
                self.running = t
                k.cur_pid = pid
                t.sem.release()
                self.main.acquire()
        self.running = None
        k.cur_pid = 0
        for t in self.tasks.values():
            t.thread.join(timeout=5)
        k.sched = None
