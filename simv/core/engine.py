"""Generic driver: seeded fan-out of runs over worker processes, aggregation,
minimisation, replay files, known-finding protocol, evidence, determinism self-test.

A *check module* provides:
    ID, CHECK, LEVEL, RULE, ASSUMPTIONS, REAL_VS_STUB
    budget(tier) -> {"runs": int, "chunk": int, "wall_cap": float}
    gen_plan(rng, tier, index) -> JSON-able dict
    run_plan(plan) -> RunResult
    shrink_candidates(plan) -> iterable of smaller plans (may be empty)
    finalize_evidence(agg: Counter, extra: dict) -> None      (optional)
    pre_checks(tier) -> dict        (optional; conformance tests etc.; raise HarnessError on failure)
"""
from __future__ import annotations

import faulthandler
import gc
import hashlib
import json
import multiprocessing
import os
import subprocess
import sys
import time
import traceback
from collections import Counter
from concurrent.futures import ProcessPoolExecutor, as_completed

from . import env, rng
from .kernel import HarnessError

EXIT_OK, EXIT_VIOLATION, EXIT_HARNESS, EXIT_NOT_REPRODUCED = 0, 1, 2, 3


class RunResult:
    __slots__ = ("violations", "stats", "digest", "keys", "evals", "sim_seconds", "trace", "sample")

    def __init__(self):
        self.violations: list[dict] = []   # {"clause","signature","detail"}
        self.stats: Counter = Counter()
        self.digest: str = ""
        self.keys: list[str] = []          # keys of distinct non-trivial cases covered
        self.evals: int = 1
        self.sim_seconds: float = 0.0
        self.trace: list = []              # human readable (only filled when asked)
        self.sample = None

    def violate(self, clause: str, signature: str, detail: str):
        self.violations.append({"clause": clause, "signature": signature, "detail": detail[:2000]})


def _h8(s: str) -> int:
    return int.from_bytes(hashlib.blake2b(s.encode(), digest_size=8).digest(), "big")


def out_root() -> str:
    """Where evidence/ and replays/ go: /verif, unless a sensitivity (mutant) run redirects them."""
    return os.environ.get("VERIF_OUT_DIR") or env.VERIF_ROOT


def load_known(prop: str):
    p = os.path.join(env.VERIF_ROOT, "known_findings.json")
    try:
        with open(p) as f:
            data = json.load(f)
    except FileNotFoundError:
        return []
    return [e for e in data.get("findings", []) if e.get("property") == prop]


# ---------------------------------------------------------------------------------- shrinking
def shrink(mod, plan: dict, signature: str, max_attempts: int = 400, max_seconds: float = 30.0):
    """Greedy delta debugging over the module's domain passes.  A candidate is accepted only
    if re-executing it (deterministically) violates the same signature."""
    t0 = time.monotonic()
    attempts = 0
    best = plan
    improved = True
    while improved and attempts < max_attempts and time.monotonic() - t0 < max_seconds:
        improved = False
        for cand in mod.shrink_candidates(best):
            attempts += 1
            if attempts > max_attempts or time.monotonic() - t0 > max_seconds:
                break
            try:
                r = mod.run_plan(cand)
            except HarnessError:
                continue
            except Exception:  # noqa: BLE001 - a malformed candidate is simply rejected
                continue
            if any(v["signature"] == signature for v in r.violations):
                best = cand
                improved = True
                break
    return best, attempts


# ---------------------------------------------------------------------------------- worker
def _worker(args):
    mod_name, tier, seed, indices, known_sigs, det_indices, wall_cap = args
    faulthandler.enable()
    if wall_cap:
        faulthandler.dump_traceback_later(wall_cap, exit=True)
    import importlib

    mod = importlib.import_module(mod_name)
    gc.disable()
    agg = Counter()
    keys = set()
    sampled = False
    viols = {}
    digests = {}
    samples = []
    evals = 0
    sim_seconds = 0.0
    shrunk_per_sig = Counter()
    n = 0
    garbage = 0
    try:
        for i in indices:
            r_ = rng.rng_for(mod.CHECK, i, seed)
            plan = mod.gen_plan(r_, tier, i)
            res = mod.run_plan(plan)
            n += 1
            agg.update(res.stats)
            evals += res.evals
            sim_seconds += res.sim_seconds
            for kx in res.keys:
                hv = _h8(kx)
                if not sampled or hv & 63 == 0:
                    keys.add(hv)
            if not sampled and len(keys) > 1_500_000:
                # memory: from here on only a fixed 1/64 subsample of the hash space is kept (a lower bound is reported)
                sampled = True
                keys = {h_ for h_ in keys if h_ & 63 == 0}
            if i in det_indices:
                digests[i] = res.digest
            if len(samples) < 2 and res.sample is not None:
                samples.append(res.sample)
            for v in res.violations:
                sig = v["signature"]
                agg["violation:" + sig] += 1
                if sig in known_sigs:
                    if sig not in viols:
                        viols[sig] = {"signature": sig, "clause": v["clause"], "detail": v["detail"],
                                      "plan": plan, "index": i, "shrunk": False}
                    continue
                if shrunk_per_sig[sig] >= 1:
                    continue
                shrunk_per_sig[sig] += 1
                small, attempts = shrink(mod, plan, sig)
                rr = mod.run_plan(small)
                vv = next((x for x in rr.violations if x["signature"] == sig), v)
                cur = viols.get(sig)
                size = len(json.dumps(small))
                if cur is None or size < cur.get("size", 1 << 60):
                    viols[sig] = {"signature": sig, "clause": vv["clause"], "detail": vv["detail"],
                                  "plan": small, "index": i, "shrunk": True, "size": size,
                                  "digest": rr.digest, "shrink_attempts": attempts}
            # garbage of a run is cyclic (kernel <-> descriptors <-> raw devices) and the collector is off while a run
            # executes: collect by volume, not only by count, or a batch of heavy runs piles up gigabytes
            garbage += res.evals
            if n % 64 == 0 or garbage > 20000:
                gc.collect()
                garbage = 0
    except HarnessError as e:
        return {"harness_error": f"{e}", "indices": indices}
    except Exception:  # noqa: BLE001
        return {"harness_error": "worker exception:\n" + traceback.format_exc(), "indices": indices}
    finally:
        faulthandler.cancel_dump_traceback_later()
        # the collector is off while runs execute and a chunk may be too short to reach the volume threshold above: whatever
        # cyclic garbage the chunk left is collected before the worker takes the next one (C17's thorough tier - chunks of 25
        # runs - grew every worker by 400 MB a minute until the machine ran out of memory)
        gc.collect()
    return {"agg": agg, "keys": keys, "keys_sampled": sampled, "viols": viols, "digests": digests, "samples": samples,
            "evals": evals, "sim_seconds": sim_seconds, "runs": n}


# ---------------------------------------------------------------------------------- interpreter variants
def variant_main():
    """Entry of a worker started as a FRESH interpreter with other interpreter flags (e.g. `python -O`, which strips
    `assert` statements from the code under test).  Arguments and results travel as pickle files."""
    import pickle

    argfile, outfile = sys.argv[1], sys.argv[2]
    env.bootstrap()
    with open(argfile, "rb") as f:
        args = pickle.load(f)
    r = _worker(args)
    with open(outfile, "wb") as f:
        pickle.dump(r, f)


def _run_variant(mod, tier, seed, flags, indices, known_sigs, wall_cap, nproc):
    """Run `indices` in `nproc` fresh interpreters started with `flags`; returns the list of worker results."""
    import pickle

    base = os.path.join(env.SANDBOX, "variant")
    os.makedirs(base, exist_ok=True)
    parts = [indices[i::nproc] for i in range(nproc)]
    procs = []
    code = "import sys; sys.path.insert(0, %r); from simv.core import engine; engine.variant_main()" % (env.VERIF_ROOT,)
    for n, part in enumerate(parts):
        if not part:
            continue
        af, of = os.path.join(base, f"a{n}.pkl"), os.path.join(base, f"o{n}.pkl")
        with open(af, "wb") as f:
            pickle.dump((mod.__name__, tier, seed, part, known_sigs, frozenset(), wall_cap), f)
        procs.append((subprocess.Popen([sys.executable] + list(flags) + ["-B", "-c", code, af, of], stdout=subprocess.PIPE,
                                       stderr=subprocess.STDOUT, text=True), of, part))
    out = []
    for p, of, part in procs:
        try:
            so, _ = p.communicate(timeout=wall_cap + 180)
        except subprocess.TimeoutExpired:
            p.kill()
            raise HarnessError(f"interpreter variant {' '.join(flags)} timed out on indices {part[0]}..{part[-1]}")
        if p.returncode != 0 or not os.path.isfile(of):
            raise HarnessError(f"interpreter variant {' '.join(flags)} failed (rc={p.returncode}): {so[-1500:]}")
        with open(of, "rb") as f:
            out.append(pickle.load(f))
        os.remove(of)
    return out


# ---------------------------------------------------------------------------------- main entry
def write_replay(mod, v: dict, seed: int) -> str:
    d = os.path.join(out_root(), "replays", mod.ID)
    os.makedirs(d, exist_ok=True)
    sig_h = hashlib.sha256(v["signature"].encode()).hexdigest()[:10]
    path = os.path.join(d, f"{sig_h}-{seed}-{v['index']}.json")
    # The plan is executed in exactly the form a replay will load it in (a JSON round trip with sorted keys): anything a
    # check derives from the plan's dict order (a repr in a detail string, say) is then the same in both.
    plan = json.loads(json.dumps(v["plan"], sort_keys=True, default=_json_default))
    flags = plan.get("interp") if isinstance(plan, dict) else None
    if flags and not _interp_matches(flags):
        res = _run_plan_in_variant(mod, plan, flags)
    else:
        res = mod.run_plan(plan, trace=True) if _accepts_trace(mod) else mod.run_plan(plan)
    again = next((x for x in res.violations if x["signature"] == v["signature"]), None)
    doc = {
        "property": mod.ID, "check": mod.CHECK, "signature": v["signature"], "clause": v["clause"],
        "detail": again["detail"] if again else v["detail"], "verif_seed": seed, "run_index": v["index"], "minimised": v.get("shrunk", False),
        "digest": res.digest, "plan": plan, "trace": res.trace, "repo_head": env.repo_head(),
    }
    with open(path, "w") as f:
        json.dump(doc, f, indent=1, sort_keys=True, default=_json_default)
    return path


def _interp_matches(flags) -> bool:
    want = sum(f.count("O") for f in flags if f.startswith("-O"))
    return sys.flags.optimize == want


class _Res:
    pass


def _run_plan_in_variant(mod, plan, flags):
    """Execute one plan in a fresh interpreter with `flags`; returns an object with digest / trace / violations."""
    import pickle

    base = os.path.join(env.SANDBOX, "variant")
    os.makedirs(base, exist_ok=True)
    af, of = os.path.join(base, "one-a.pkl"), os.path.join(base, "one-o.pkl")
    with open(af, "wb") as f:
        pickle.dump((mod.__name__, plan), f)
    code = ("import sys, pickle; sys.path.insert(0, %r)\n"
            "from simv.core import env; env.bootstrap()\n"
            "import importlib, gc; gc.disable()\n"
            "name, plan = pickle.load(open(sys.argv[1], 'rb'))\n"
            "mod = importlib.import_module(name)\n"
            "from simv.core import engine\n"
            "r = mod.run_plan(plan, trace=True) if engine._accepts_trace(mod) else mod.run_plan(plan)\n"
            "pickle.dump({'digest': r.digest, 'trace': r.trace, 'violations': r.violations}, open(sys.argv[2], 'wb'))\n") % (env.VERIF_ROOT,)
    p = subprocess.run([sys.executable] + list(flags) + ["-B", "-c", code, af, of], capture_output=True, text=True, timeout=900)
    if p.returncode != 0 or not os.path.isfile(of):
        raise HarnessError(f"replay under interpreter flags {flags} failed: rc={p.returncode} {p.stderr[-1500:]}")
    with open(of, "rb") as f:
        d = pickle.load(f)
    os.remove(of)
    r = _Res()
    r.digest, r.trace, r.violations = d["digest"], d["trace"], d["violations"]
    return r


def _json_default(o):
    if isinstance(o, (bytes, bytearray)):
        return {"__bytes__": o.hex()}
    if isinstance(o, (set, frozenset)):
        return sorted(o)
    return repr(o)


def _accepts_trace(mod) -> bool:
    import inspect

    try:
        return "trace" in inspect.signature(mod.run_plan).parameters
    except (TypeError, ValueError):
        return False


def _fresh_interpreter_digests(mod, tier, seed, indices, hashseed):
    code = (
        "import sys, json; sys.path.insert(0, %r)\n"
        "from simv.core import env; env.bootstrap()\n"
        "from simv.core import rng\n"
        "import importlib, gc; gc.disable()\n"
        "mod = importlib.import_module(%r)\n"
        "out = {}\n"
        "for i in %r:\n"
        "    plan = mod.gen_plan(rng.rng_for(mod.CHECK, i, %d), %r, i)\n"
        "    out[str(i)] = mod.run_plan(plan).digest\n"
        "print('DIGESTS ' + json.dumps(out))\n"
    ) % (env.VERIF_ROOT, mod.__name__, list(indices), seed, tier)
    e = dict(os.environ)
    e["PYTHONHASHSEED"] = str(hashseed)
    p = subprocess.run([sys.executable, "-c", code], capture_output=True, text=True, env=e, timeout=600)
    for line in p.stdout.splitlines():
        if line.startswith("DIGESTS "):
            return {int(k): v for k, v in json.loads(line[8:]).items()}
    raise HarnessError(f"fresh-interpreter determinism run failed: rc={p.returncode}\n{p.stderr[-2000:]}")


def run_check(mod, tier: str) -> int:
    t0 = time.monotonic()
    seed = rng.base_seed()
    print(f"[{mod.ID}] check={mod.CHECK} tier={tier} VERIF_SEED={seed} repo={env.REPO} head={env.repo_head()}")
    sys.stdout.flush()
    known = load_known(mod.ID)
    known_sigs = {e["signature"] for e in known if e.get("status") == "known"}
    extra = {}
    try:
        if hasattr(mod, "pre_checks"):
            extra["pre_checks"] = mod.pre_checks(tier)
    except HarnessError as e:
        print(f"HARNESS-ERROR property={mod.ID} {e}")
        return EXIT_HARNESS

    b = mod.budget(tier)
    total, chunk = b["runs"], b.get("chunk", 50)
    workers = int(os.environ.get("VERIF_WORKERS", "0")) or min(16, os.cpu_count() or 1)
    det_n = b.get("det_sample", 6 if tier == "quick" else 40)
    stride = max(1, total // det_n)
    det_indices = frozenset(range(0, total, stride)[:det_n])
    chunks = [list(range(s, min(total, s + chunk))) for s in range(0, total, chunk)]
    wall_cap = b.get("wall_cap", 900.0)
    if os.environ.get("VERIF_WALL_CAP"):
        # (development: a shorter exploration of a tier; the run stops submitting work at the cap and reports what it covered)
        wall_cap = min(wall_cap, float(os.environ["VERIF_WALL_CAP"]))
    deadline = t0 + wall_cap

    agg = Counter()
    keys = set()
    keys_sampled = False
    viols: dict[str, dict] = {}
    digests = {}
    samples = []
    evals = runs = 0
    sim_seconds = 0.0
    harness_errors = []
    stopped_early = False
    ctx = multiprocessing.get_context("fork")
    with ProcessPoolExecutor(max_workers=workers, mp_context=ctx) as ex:
        futs = {}
        it = iter(chunks)

        def submit_next():
            nonlocal it
            try:
                c = next(it)
            except StopIteration:
                return False
            f = ex.submit(_worker, (mod.__name__, tier, seed, c, known_sigs, det_indices, wall_cap + 120))
            futs[f] = c
            return True

        for _ in range(workers * 2):
            if not submit_next():
                break
        while futs:
            done = next(as_completed(list(futs)))
            c = futs.pop(done)
            try:
                r = done.result()
            except Exception as e:  # noqa: BLE001 - worker died (faulthandler exit, OOM ...)
                harness_errors.append(f"worker died on indices {c[0]}..{c[-1]}: {e!r}")
                it = iter(())
                continue
            if "harness_error" in r:
                harness_errors.append(r["harness_error"])
                for f in list(futs):
                    f.cancel()
                it = iter(())
                continue
            agg.update(r["agg"])
            if r.get("keys_sampled") and not keys_sampled:
                keys_sampled = True
                keys = {h_ for h_ in keys if h_ & 63 == 0}
            keys |= ({h_ for h_ in r["keys"] if h_ & 63 == 0} if keys_sampled else r["keys"])
            if not keys_sampled and len(keys) > 6_000_000:
                keys_sampled = True
                keys = {h_ for h_ in keys if h_ & 63 == 0}
            digests.update(r["digests"])
            evals += r["evals"]
            runs += r["runs"]
            sim_seconds += r["sim_seconds"]
            for s in r["samples"]:
                if len(samples) < 3:
                    samples.append(s)
            for sig, v in r["viols"].items():
                cur = viols.get(sig)
                if cur is None or (v.get("size", 1 << 60), v["index"]) < (cur.get("size", 1 << 60), cur["index"]):
                    viols[sig] = v
            if time.monotonic() < deadline:
                submit_next()
            else:
                stopped_early = True

    # ------------------------------------------------------------------ interpreter variants (swarm: configuration of the interpreter)
    variant_report = {}
    for var in getattr(mod, "INTERP_VARIANTS", ()):
        if harness_errors:
            break
        flags = list(var["flags"])
        nv = min(total, int(var["runs"][tier]))
        # the first indices (for checks that enumerate, the enumeration lives there) plus an even spread over the rest
        head = list(range(min(nv // 2, total)))
        rest = [i for i in range(len(head), total, max(1, (total - len(head)) // max(1, nv - len(head))))][: nv - len(head)]
        vidx = head + rest
        try:
            vres = _run_variant(mod, tier, seed, flags, vidx, known_sigs, wall_cap, min(workers, 8))
        except HarnessError as e:
            harness_errors.append(str(e))
            break
        vruns = 0
        for r in vres:
            if "harness_error" in r:
                harness_errors.append(f"[variant {' '.join(flags)}] " + r["harness_error"])
                continue
            vruns += r["runs"]
            evals += r["evals"]
            runs += r["runs"]
            sim_seconds += r["sim_seconds"]
            agg.update(r["agg"])
            for sig, v in r["viols"].items():
                v["plan"] = dict(v["plan"], interp=flags)
                cur = viols.get(sig)
                if cur is None or (v.get("size", 1 << 60), v["index"]) < (cur.get("size", 1 << 60), cur["index"]):
                    viols[sig] = v
        variant_report[" ".join(flags)] = {"runs": vruns, "what": var.get("what", "")}

    if harness_errors:
        for h in harness_errors[:3]:
            print(f"HARNESS-ERROR property={mod.ID} {h}")
        return EXIT_HARNESS

    # ------------------------------------------------------------------ determinism self-test
    det_report = {"indices": sorted(digests), "same_process_rerun": 0, "fresh_interpreter": {}}
    try:
        gc.disable()
        for i in sorted(digests):
            plan = mod.gen_plan(rng.rng_for(mod.CHECK, i, seed), tier, i)
            d2 = mod.run_plan(plan).digest
            if d2 != digests[i]:
                print(f"NONDETERMINISM property={mod.ID} run_index={i}: worker digest {digests[i]} != parent rerun {d2}")
                return EXIT_HARNESS
            det_report["same_process_rerun"] += 1
        gc.enable()
        fresh = sorted(digests)[: (4 if tier == "quick" else 24)]
        pinned = int(os.environ.get("PYTHONHASHSEED", "0") or 0)
        hashseeds = (pinned, 1) if tier == "quick" else (pinned, 1, 31337)
        if getattr(mod, "HASHSEED_SENSITIVE", False):
            hashseeds = (pinned,)
        have_new = any(s_ not in known_sigs for s_ in viols)
        for hs in hashseeds:
            got = _fresh_interpreter_digests(mod, tier, seed, fresh, hs)
            bad = [i for i in fresh if got.get(i) != digests[i]]
            if bad and hs != pinned and have_new:
                # Replays run under the pinned hash seed, which just reproduced exactly.  With violations on the table a
                # difference under ANOTHER hash seed usually means the code under test walks a set/dict of strings on
                # the failing path; the violations are reported, the sensitivity is noted.
                print(f"NOTE property={mod.ID} run_index={bad[0]} behaves differently under PYTHONHASHSEED={hs} "
                      f"(digest {got.get(bad[0])} != {digests[bad[0]]}); replays are exact under the pinned PYTHONHASHSEED={pinned}")
                det_report["fresh_interpreter"][str(hs)] = f"differs at {bad[:3]} (violations present)"
                continue
            if bad:
                i = bad[0]
                print(f"NONDETERMINISM property={mod.ID} run_index={i}: PYTHONHASHSEED={hs} digest {got.get(i)} != {digests[i]}")
                return EXIT_HARNESS
            det_report["fresh_interpreter"][str(hs)] = len(fresh)
    except HarnessError as e:
        print(f"HARNESS-ERROR property={mod.ID} {e}")
        return EXIT_HARNESS

    # ------------------------------------------------------------------ verdicts
    new_viols = [v for s, v in sorted(viols.items()) if s not in known_sigs]
    known_hit = [e for e in known if e.get("status") == "known" and e["signature"] in viols]
    known_missed = [e for e in known if e.get("status") == "known" and e["signature"] not in viols]
    for e in known_hit:
        print(f"KNOWN-FINDING: property={mod.ID} {e['what_fails']} [signature={e['signature']}; observed {agg['violation:' + e['signature']]}x]")
    for e in known_missed:
        print(f"NOTE property={mod.ID} listed known finding not observed in this run: {e['signature']}")
    replay_paths = []
    for v in new_viols[:5]:
        p = write_replay(mod, v, seed)
        replay_paths.append(p)
        print(f"VIOLATION property={mod.ID} replay={p}")
        print(f"  clause={v['clause']} signature={v['signature']}\n  {v['detail'][:600]}")
    if len(new_viols) > 5:
        print(f"  ... and {len(new_viols) - 5} more distinct signatures")

    wall = time.monotonic() - t0
    cov = {
        "evaluations": int(evals),
        "distinct_nontrivial": len(keys),
        "rule": mod.RULE + (" [distinct_nontrivial is a LOWER BOUND here: to bound memory only cases whose 64-bit hash falls into a fixed 1/64 "
                            "of the hash space were counted; distinct_nontrivial_estimate = 64 x that]" if keys_sampled else ""),
        "samples": samples if samples else [{"note": "no sample produced"}],
        "exhaustive": False,
        "simulated_runs": runs,
        "distinct_nontrivial_estimate": len(keys) * (64 if keys_sampled else 1),
        "runs_planned": total,
        "stopped_early_by_wall_cap": stopped_early,
        "runs_per_hour": int(runs / wall * 3600) if wall > 0 else 0,
        "evaluations_per_hour": int(evals / wall * 3600) if wall > 0 else 0,
        "sim_seconds": round(sim_seconds, 3),
        "workers": workers,
        "fault_counts": {k: v for k, v in sorted(agg.items()) if k.startswith("fault")},
        "probe_counts": {k[6:]: v for k, v in sorted(agg.items()) if k.startswith("probe:")},
        "kernel_event_counts": {k[3:]: v for k, v in sorted(agg.items()) if k.startswith("ev:")},
        "violation_counts": {k[10:]: v for k, v in sorted(agg.items()) if k.startswith("violation:")},
        "known_findings_matched": [e["signature"] for e in known_hit],
        "real_vs_stub": getattr(mod, "REAL_VS_STUB", {}),
        "determinism_sample": det_report,
        "interpreter_variants": variant_report,
        "repo_head": env.repo_head(),
    }
    # scripted faults (exceptions, failing commands, damaged lines, crash points ...) are counted by the checks as probes;
    # FAULT_PROBES names the ones that are injected faults so that they appear next to the kernel-level ones
    for label, probe in getattr(mod, "FAULT_PROBES", {}).items():
        cov["fault_counts"]["fault_fired:" + label] = agg.get("probe:" + probe, 0)
    cov.update(extra)
    zero = [k for k in getattr(mod, "PROBES", []) if agg.get("probe:" + k, 0) == 0]
    cov["probes_never_hit"] = zero
    for z in zero:
        print(f"WARNING property={mod.ID} probe never hit: {z}")
    if hasattr(mod, "finalize_evidence"):
        mod.finalize_evidence(agg, cov)
    ev = {
        "property_id": mod.ID, "tier": tier, "seed": seed, "level": mod.LEVEL, "coverage": cov,
        "assumptions": list(getattr(mod, "ASSUMPTIONS", [])), "wall_s": round(wall, 2),
        "violations": len(new_viols),
    }
    os.makedirs(os.path.join(out_root(), "evidence"), exist_ok=True)
    with open(os.path.join(out_root(), "evidence", f"{mod.ID}.json"), "w") as f:
        json.dump(ev, f, indent=1, sort_keys=True, default=_json_default)
    print(f"[{mod.ID}] runs={runs} evaluations={evals} distinct_nontrivial={len(keys)} "
          f"violations(new)={len(new_viols)} known={len(known_hit)} wall={wall:.1f}s")
    return EXIT_VIOLATION if new_viols else EXIT_OK


def replay(path: str) -> int:
    import importlib

    with open(path) as f:
        doc = json.load(f)
    mod = importlib.import_module(CHECK_MODULES[doc["property"]])
    plan = doc["plan"]
    flags = plan.get("interp") if isinstance(plan, dict) else None
    if flags and not _interp_matches(flags):
        # found under other interpreter flags (e.g. python -O): replayed under the same flags, in a fresh interpreter
        res = _run_plan_in_variant(mod, plan, flags)
    else:
        res = mod.run_plan(plan, trace=True) if _accepts_trace(mod) else mod.run_plan(plan)
    same = [v for v in res.violations if v["signature"] == doc["signature"]]
    if same and res.digest == doc["digest"]:
        print(f"VIOLATION property={doc['property']} replay={path}")
        print(f"  clause={same[0]['clause']} signature={doc['signature']}\n  {same[0]['detail'][:1500]}")
        for line in res.trace[-60:]:
            print("   ", line)
        return EXIT_VIOLATION
    if same:
        print(f"NOT-REPRODUCED property={doc['property']} same violation but digest differs: {res.digest} != {doc['digest']}")
        return EXIT_NOT_REPRODUCED
    print(f"NOT-REPRODUCED property={doc['property']} replay={path}: signature {doc['signature']} did not occur "
          f"(violations now: {[v['signature'] for v in res.violations]})")
    return EXIT_NOT_REPRODUCED


CHECK_MODULES = {
    "C02": "simv.checks.c02_history",
    "C03": "simv.checks.c03_crash",
    "C04": "simv.checks.c04_sessions",
    "C10": "simv.checks.c10_damaged",
    "C14": "simv.checks.c14_iter",
    "C17": "simv.checks.c17_job",
    "C18": "simv.checks.c18_jobmap",
}
