"""Simulated kernel: file system, descriptor table, POSIX record-lock table, virtual
clock and process table.  Everything another simulated process can observe goes
through here, and every such call is a *yield point* for the scheduler.

The raw devices handed to molli are `SimRaw` objects wrapped in the *real* CPython
`io.BufferedReader` / `io.BufferedRandom`, so user-space buffering behaves exactly
as in production.
"""
from __future__ import annotations

import errno
import io
import os
import pathlib
from collections import Counter

# The kernel in force for the current run (one per interpreter at a time; each worker
# process executes runs sequentially).  SimPath objects carry no kernel reference so
# that they pickle the way pathlib paths do.
CURRENT: "Kernel | None" = None


SIM_FD_BASE = 1_000_000
# the REAL os functions, for the harness's own look at the real file system (several are redirected while seams are installed)
REAL_LISTDIR = os.listdir
REAL_ISLINK = os.path.islink
REAL_REALPATH = os.path.realpath


class SimCrash(BaseException):
    """Raised inside a simulated process that has been killed (unwinds its frames)."""


class SimLimit(BaseException):
    """A per-run cap on kernel events was exceeded (used to turn hangs into verdicts)."""


class HarnessError(Exception):
    """The simulator itself is broken or a seam was lost; never a VIOLATION."""


class FD:
    __slots__ = ("fd", "pid", "path", "pos", "readable", "writable", "closed", "kind", "real", "append")

    def __init__(self, fd, pid, path, readable, writable, kind="file"):
        self.fd = fd
        self.pid = pid
        self.path = path
        self.pos = 0
        self.readable = readable
        self.writable = writable
        self.closed = False
        self.append = False   # O_APPEND: every write lands at the current end of the file, wherever the position is
        self.real = None  # a lock descriptor keeps the REAL lock file open: its inode is the identity of the lock
        self.kind = kind  # 'file' | 'lock'


class Fault:
    """One injected fault.  `when` selects the kernel call it strikes:
    pid, op (kernel op name or '*'), nth (count of matching calls, 1-based) and optionally
    phase (workload phase label set through Kernel.set_phase).
    kind: 'kill' (tear = bytes of a write applied first), 'eio', 'enospc' (partial bytes)."""

    __slots__ = ("kind", "pid", "op", "nth", "phase", "arg", "seen", "fired")

    def __init__(self, kind, pid, op="*", nth=1, phase=None, arg=0):
        self.kind = kind
        self.pid = pid
        self.op = op
        self.nth = nth
        self.phase = phase
        self.arg = arg
        self.seen = 0
        self.fired = False

    @classmethod
    def from_json(cls, d):
        return cls(d["kind"], d["pid"], d.get("op", "*"), d.get("nth", 1), d.get("phase"), d.get("arg", 0))

    def to_json(self):
        return {"kind": self.kind, "pid": self.pid, "op": self.op, "nth": self.nth,
                "phase": self.phase, "arg": self.arg}


class Kernel:
    def __init__(self, root: str | None = None, bufsize: int = 8192, latency=None):
        # The virtual namespace is rooted at the real cwd so that SimFS path normalisation and
        # molli's rwlock() (real pathlib resolve()) agree on which spellings name the same file.
        self.root = root or os.getcwd()
        self.bufsize = bufsize
        self.files: dict[str, bytearray] = {}
        self.fdtab: dict[int, FD] = {}
        self.next_fd = 3
        self.locks: dict[str, dict[int, str]] = {}
        self.now = 0.0
        self.seq = 0
        self.log: list[tuple] = []
        self.keep_log = True
        self.sched = None
        self.cur_pid = 0
        self.dead: set[int] = set()
        self.atexit: dict[int, list] = {}
        self.counters: Counter = Counter()
        self.faults: list[Fault] = []
        self.phase: dict[int, str] = {}
        self.record_writes: set[str] = set()
        self.wlog: dict[str, list] = {}
        self.waiting_on: dict[int, str] = {}
        self.pending_enospc: set[int] = set()
        self.latency = latency  # callable(op) -> float seconds, or None
        self.finished = False
        self.max_events = 0
        self._names: dict[str, str] = {}
        self.lockfiles: dict[str, int] = {}   # lock-file name -> inode
        self.next_ino = 0
        self._normcache: dict[str, str] = {}
        self.symlinks: dict[str, str] = {}     # simulated symbolic links: absolute link path -> target (absolute, or relative to the link's directory)
        self.observers: list = []  # callables(kernel, event) run after each event

    # ------------------------------------------------------------------ helpers
    def norm(self, path) -> str:
        p = os.fspath(path)
        r = self._normcache.get(p)
        if r is None:
            q = p if os.path.isabs(p) else os.path.join(self.root, p)
            # simulated symbolic links first (they can be re-pointed during a run) ...
            for _ in range(16):
                if not self.symlinks:
                    break
                parts = os.path.normpath(q).split(os.sep)
                for i in range(2, len(parts) + 1):
                    prefix = os.sep.join(parts[:i])
                    tgt = self.symlinks.get(prefix)
                    if tgt is not None:
                        base = tgt if os.path.isabs(tgt) else os.path.join(os.path.dirname(prefix), tgt)
                        q = os.path.normpath(os.path.join(base, *parts[i:]))
                        break
                else:
                    break
            # ... then realpath: symbolic links that exist on the real file system (the sandbox's `ln -> .` and
            # `lnk_libN.ukv -> libN.ukv`) alias names here exactly as they do for molli's rwlock()
            r = self._normcache[p] = REAL_REALPATH(q)
        return r

    def symlink(self, link, target):
        """Create or RE-POINT a simulated symbolic link (path resolution of every process sees it from now on)."""
        lp = link if os.path.isabs(os.fspath(link)) else os.path.join(self.root, os.fspath(link))
        pid, _ = self._enter("symlink", os.path.normpath(lp))
        self.symlinks[os.path.normpath(lp)] = os.fspath(target)
        self._normcache.clear()
        self._event(pid, "symlink", os.path.normpath(lp), os.fspath(target))

    def set_phase(self, label: str | None, pid: int | None = None):
        self.phase[self.cur_pid if pid is None else pid] = label

    def canon(self, path: str) -> str:
        """Stable short name for a path (first-seen order) so that logs and digests do not
        depend on the sandbox directory or the cwd."""
        n = self._names.get(path)
        if n is None:
            is_lock = ".lock" in os.path.basename(path)
            n = self._names[path] = f"{'L' if is_lock else 'F'}{len(self._names)}:{'' if is_lock else os.path.basename(path)[-12:]}"
        return n

    def _event(self, pid, op, obj, res=None):
        obj = self.canon(obj) if obj else obj
        self.seq += 1
        if self.max_events and self.seq > self.max_events:
            raise SimLimit(f"more than {self.max_events} kernel events")
        self.counters[op] += 1
        ev = (self.seq, pid, op, obj, res)
        if self.keep_log:
            self.log.append(ev)
        for ob in self.observers:
            ob(self, ev)
        return ev

    def _enter(self, op: str, obj: str, pid: int | None = None):
        """Common prologue of every kernel call: liveness, yield to the scheduler,
        latency, fault matching.  Returns (pid, fault-or-None)."""
        if self.finished:
            raise SimCrash()
        pid = self.cur_pid if pid is None else pid
        if pid in self.dead:
            raise SimCrash()
        if self.sched is not None:
            self.sched.yield_point(pid, op, obj)
            if pid in self.dead or self.finished:
                raise SimCrash()
            if self.latency is not None:
                d = self.latency(op)
                if d:
                    self.sched.sleep(pid, d)
                    if pid in self.dead or self.finished:
                        raise SimCrash()
        flt = None
        if self.faults:
            ph = self.phase.get(pid)
            for f in self.faults:
                if f.fired or f.pid != pid:
                    continue
                if f.op != "*" and f.op != op:
                    continue
                if f.phase is not None and f.phase != ph:
                    continue
                f.seen += 1
                if f.seen == f.nth and flt is None:
                    f.fired = True
                    flt = f
                    self.counters["fault_fired:" + f.kind] += 1
        return pid, flt

    def kill(self, pid: int):
        """What an OS does on SIGKILL: drop locks, close descriptors without flushing
        user-space buffers, mark dead."""
        if pid in self.dead:
            return
        self.dead.add(pid)
        for lk in sorted(self.locks):
            self.locks[lk].pop(pid, None)
        for fd in list(self.fdtab.values()):
            if fd.pid == pid:
                fd.closed = True
                self._close_real(fd)
                del self.fdtab[fd.fd]
        self.waiting_on.pop(pid, None)
        self._event(pid, "killed", "")

    @staticmethod
    def _close_real(fd):
        if fd.real is not None:
            try:
                fd.real.close()
            except OSError:
                pass
            fd.real = None

    def close_all_real(self):
        """End of a run: nothing of the simulated world keeps a real descriptor."""
        for fd in list(self.fdtab.values()):
            self._close_real(fd)

    def _die(self, pid):
        self.kill(pid)
        raise SimCrash()

    # ------------------------------------------------------------------ files
    def sys_open(self, path, mode: str):
        p = self.norm(path)
        pid, flt = self._enter("open", p)
        if flt is not None:
            if flt.kind == "kill":
                self._die(pid)
            raise OSError(errno.EIO, "injected EIO on open", p)
        m = mode.replace("b", "")
        exists = p in self.files
        if m in ("r", "r+"):
            if not exists:
                self._event(pid, "open", p, "ENOENT")
                raise FileNotFoundError(errno.ENOENT, "No such file or directory", p)
        elif m in ("x", "x+"):
            if exists:
                self._event(pid, "open", p, "EEXIST")
                raise FileExistsError(errno.EEXIST, "File exists", p)
            self.files[p] = bytearray()
        elif m in ("w", "w+"):
            self.files[p] = bytearray()
        elif m in ("a", "a+"):
            if not exists:
                self.files[p] = bytearray()
        else:
            raise ValueError(f"SimFS: unsupported mode {mode!r}")
        readable = m in ("r", "r+", "w+", "x+", "a+")
        writable = m != "r"
        fd = FD(self.next_fd, pid, p, readable, writable)
        if m in ("a", "a+"):
            fd.append = True
            fd.pos = len(self.files[p])     # CPython positions an append-mode file at its end when it opens it
        self.next_fd += 1
        self.fdtab[fd.fd] = fd
        self._event(pid, "open", p, m)
        return fd

    def sys_read(self, fd: FD, n: int) -> bytes:
        pid, flt = self._enter("read", fd.path, fd.pid)
        if flt is not None:
            if flt.kind == "kill":
                self._die(pid)
            raise OSError(errno.EIO, "injected EIO on read", fd.path)
        if fd.closed:
            raise ValueError("I/O operation on closed file")
        data = self.files.get(fd.path, b"")
        out = bytes(data[fd.pos:fd.pos + n])
        fd.pos += len(out)
        self._event(pid, "read", fd.path, len(out))
        return out

    def _apply_write(self, fd: FD, b: bytes):
        data = self.files.setdefault(fd.path, bytearray())
        if not b:
            return      # a write of no bytes changes nothing (it does not even extend a file positioned past its end)
        if fd.append:
            fd.pos = len(data)
        if fd.pos > len(data):
            data.extend(b"\0" * (fd.pos - len(data)))
        data[fd.pos:fd.pos + len(b)] = b
        if fd.path in self.record_writes:
            self.wlog.setdefault(fd.path, []).append(("w", fd.pos, bytes(b), fd.pid))
        fd.pos += len(b)

    def sys_write(self, fd: FD, b: bytes) -> int:
        pid, flt = self._enter("write", fd.path, fd.pid)
        if fd.closed:
            raise ValueError("I/O operation on closed file")
        if fd.fd in self.pending_enospc:
            self.pending_enospc.discard(fd.fd)
            self._event(pid, "write", fd.path, "ENOSPC")
            raise OSError(errno.ENOSPC, "injected ENOSPC", fd.path)
        if flt is not None:
            if flt.kind == "kill":
                n = flt.arg % (len(b) + 1) if len(b) else 0
                if n:
                    self._apply_write(fd, b[:n])
                    self.counters["torn_write"] += 1
                self._event(pid, "write", fd.path, ("torn", n, len(b)))
                self._die(pid)
            if flt.kind == "eio":
                self._event(pid, "write", fd.path, "EIO")
                raise OSError(errno.EIO, "injected EIO on write", fd.path)
            if flt.kind == "enospc":
                n = flt.arg % len(b) if len(b) else 0
                if n == 0:
                    self._event(pid, "write", fd.path, "ENOSPC")
                    raise OSError(errno.ENOSPC, "injected ENOSPC", fd.path)
                self._apply_write(fd, b[:n])
                self.pending_enospc.add(fd.fd)
                self._event(pid, "write", fd.path, ("short", n, len(b)))
                return n
        self._apply_write(fd, b)
        self._event(pid, "write", fd.path, len(b))
        return len(b)

    def sys_seek(self, fd: FD, off: int, whence: int) -> int:
        if whence == 2:
            pid, flt = self._enter("seek_end", fd.path, fd.pid)
            if flt is not None and flt.kind == "kill":
                self._die(pid)
            if fd.closed:
                raise ValueError("I/O operation on closed file")
            fd.pos = len(self.files.get(fd.path, b"")) + off
            self._event(pid, "seek_end", fd.path, fd.pos)
        else:
            if self.finished or fd.pid in self.dead:
                raise SimCrash()
            if fd.closed:
                raise ValueError("I/O operation on closed file")
            fd.pos = off if whence == 0 else fd.pos + off
        if fd.pos < 0:
            fd.pos = 0
            raise OSError(errno.EINVAL, "negative seek")
        return fd.pos

    def sys_truncate(self, fd: FD, size: int) -> int:
        pid, flt = self._enter("truncate", fd.path, fd.pid)
        if flt is not None:
            if flt.kind == "kill":
                self._die(pid)
            raise OSError(errno.EIO, "injected EIO on truncate", fd.path)
        if fd.closed:
            raise ValueError("I/O operation on closed file")
        data = self.files.setdefault(fd.path, bytearray())
        if size < len(data):
            del data[size:]
        else:
            data.extend(b"\0" * (size - len(data)))
        if fd.path in self.record_writes:
            self.wlog.setdefault(fd.path, []).append(("t", size, b"", fd.pid))
        self._event(pid, "truncate", fd.path, size)
        return size

    def sys_close(self, fd: FD):
        if fd.closed:
            return
        pid, flt = self._enter("close", fd.path, fd.pid)
        if flt is not None and flt.kind == "kill":
            self._die(pid)
        fd.closed = True
        self._close_real(fd)
        self.fdtab.pop(fd.fd, None)
        self.pending_enospc.discard(fd.fd)
        if fd.kind == "lock":
            # POSIX: closing ANY descriptor of the process on that file drops its locks
            self.locks.get(fd.path, {}).pop(pid, None)
        self._event(pid, "close", fd.path)

    def sys_fsync(self, fd: FD):
        """fsync/fdatasync of a simulated descriptor.  The simulated disk has no volatile cache of its own (process death,
        not power loss, is what is modelled), so a successful fsync changes nothing - but it is a kernel call: a yield
        point, and a place where an I/O error can be reported."""
        pid, flt = self._enter("fsync", fd.path, fd.pid)
        if flt is not None:
            if flt.kind == "kill":
                self._die(pid)
            self._event(pid, "fsync", fd.path, "EIO")
            raise OSError(errno.EIO, "injected EIO on fsync", fd.path)
        if fd.closed:
            raise OSError(errno.EBADF, "Bad file descriptor")
        self._event(pid, "fsync", fd.path)

    def sys_fstat(self, fd: FD) -> int:
        """fstat of a simulated descriptor: the current size of the file (it observes what other processes appended)."""
        pid, flt = self._enter("fstat", fd.path, fd.pid)
        if flt is not None and flt.kind == "kill":
            self._die(pid)
        if fd.closed:
            raise OSError(errno.EBADF, "Bad file descriptor")
        n = len(self.files.get(fd.path, b""))
        self._event(pid, "fstat", fd.path, n)
        return n

    def sys_stat(self, path) -> bool:
        p = self.norm(path)
        pid, flt = self._enter("stat", p)
        if flt is not None and flt.kind == "kill":
            self._die(pid)
        r = p in self.files or p in self.lockfiles
        self._event(pid, "stat", p, r)
        return r

    def sys_rename(self, src, dst):
        """rename / replace: atomic in the namespace (descriptors that are open on either file keep their file's content
        by name here - the storage layer never renames a file it has open)."""
        a, b = self.norm(src), self.norm(dst)
        pid, flt = self._enter("rename", a)
        if flt is not None:
            if flt.kind == "kill":
                self._die(pid)
            raise OSError(errno.EIO, "injected EIO on rename", a)
        if a not in self.files:
            raise FileNotFoundError(errno.ENOENT, "No such file or directory", a)
        self.files[b] = self.files.pop(a)
        for fd in self.fdtab.values():
            if fd.kind == "file" and fd.path == a:
                fd.path = b
        self._event(pid, "rename", a, self.canon(b))

    def sys_unlink(self, path):
        p = self.norm(path)
        pid, _ = self._enter("unlink", p)
        if p in self.lockfiles:
            del self.lockfiles[p]      # descriptors that are open on the old inode keep working (and keep their locks)
        elif p in self.files:
            del self.files[p]
        else:
            raise FileNotFoundError(errno.ENOENT, "No such file or directory", p)
        self._event(pid, "unlink", p)

    # ------------------------------------------------------------------ locks
    def lock_open(self, path) -> FD:
        p = self.norm(path)
        pid, flt = self._enter("lk_open", p)
        if flt is not None and flt.kind == "kill":
            self._die(pid)
        # A POSIX lock belongs to the INODE, not to the name: the lock table is keyed by (name, inode).  A lock file that
        # is unlinked while somebody still has it open, and then re-created, is a different lock - as on a real OS.
        # Lock files live in the simulated namespace (molli.config.SHARED_DIR is a SimPath during a run), opening creates
        # the file like fasteners' open(path, 'a+') does.
        ino = self.lockfiles.get(p)
        if ino is None:
            self.next_ino += 1
            ino = self.lockfiles[p] = self.next_ino
        key = f"{p}#{ino}"
        real = None
        fd = FD(self.next_fd, pid, key, True, True, kind="lock")
        fd.real = real
        self.next_fd += 1
        self.fdtab[fd.fd] = fd
        self.locks.setdefault(key, {})
        self._event(pid, "lk_open", key)
        return fd

    def lock_try(self, fd: FD, exclusive: bool) -> bool:
        pid, flt = self._enter("trylock", fd.path, fd.pid)
        if flt is not None and flt.kind == "kill":
            self._die(pid)
        if fd.closed:
            raise ValueError("I/O operation on closed file")
        holders = self.locks.setdefault(fd.path, {})
        others = [(q, m) for q, m in holders.items() if q != pid]
        if exclusive:
            ok = not others
        else:
            ok = all(m == "r" for _, m in others)
        if ok:
            holders[pid] = "w" if exclusive else "r"
            self.waiting_on.pop(pid, None)
        else:
            self.waiting_on[pid] = fd.path
            self.counters["trylock_blocked_" + ("w" if exclusive else "r")] += 1
        self._event(pid, "trylock", fd.path, ("x" if exclusive else "s", ok))
        return ok

    def lock_unlock(self, fd: FD):
        pid, flt = self._enter("unlock", fd.path, fd.pid)
        if flt is not None and flt.kind == "kill":
            self._die(pid)
        if fd.closed:
            raise ValueError("I/O operation on closed file")
        self.locks.get(fd.path, {}).pop(pid, None)
        self._event(pid, "unlock", fd.path)

    # ------------------------------------------------------------------ time
    def monotonic(self) -> float:
        return self.now

    def sleep(self, d: float):
        pid = self.cur_pid
        if self.finished or pid in self.dead:
            raise SimCrash()
        d = max(d, 1e-6)  # even sleep(0) takes time: a zero-delay poll loop must not freeze the clock
        if self.sched is None:
            self.now += d
            return
        self.counters["sleep"] += 1
        self.sched.sleep(pid, d)
        if pid in self.dead or self.finished:
            raise SimCrash()

    # ------------------------------------------------------------------ process exit
    def register_atexit(self, fn, *a, **kw):
        self.atexit.setdefault(self.cur_pid, []).append((fn, a, kw))

    def run_atexit(self, pid: int):
        from . import env

        for fn, a, kw in list(reversed(self.atexit.pop(pid, []))) + list(reversed(env.IMPORT_ATEXIT_HOOKS)):
            try:
                fn(*a, **kw)
            except SimCrash:
                raise
            except Exception:
                self.counters["atexit_exception"] += 1

    def reap(self, pid: int):
        """Normal process exit after its atexit handlers ran: the OS closes what is left."""
        for lk in sorted(self.locks):
            self.locks[lk].pop(pid, None)
        for fd in list(self.fdtab.values()):
            if fd.pid == pid:
                fd.closed = True
                self._close_real(fd)
                del self.fdtab[fd.fd]
                self.counters["fd_open_at_exit"] += 1

    # ------------------------------------------------------------------ inspection (no yield)
    def fds_of(self, pid: int, path=None, kind=None):
        p = None if path is None else self.norm(path)
        return [f for f in self.fdtab.values()
                if f.pid == pid and (p is None or f.path == p) and (kind is None or f.kind == kind)]

    def locks_of(self, pid: int):
        return sorted(((lk, m) for lk, h in self.locks.items() for q, m in h.items() if q == pid), key=lambda t: self.canon(t[0]))

    def image(self, path) -> bytes:
        return bytes(self.files.get(self.norm(path), b""))


# ---------------------------------------------------------------------- raw device
class SimRaw(io.RawIOBase):
    def __init__(self, kernel: Kernel, fd: FD, name: str):
        super().__init__()
        self._k = kernel
        self._fd = fd
        self.name = name

    def readable(self):
        return self._fd.readable

    def writable(self):
        return self._fd.writable

    def seekable(self):
        return True

    def readinto(self, b):
        if self.closed:
            raise ValueError("I/O operation on closed file")
        if not self._fd.readable:
            raise io.UnsupportedOperation("File not open for reading")
        data = self._k.sys_read(self._fd, len(b))
        n = len(data)
        b[:n] = data
        return n

    def write(self, b):
        if self._k.finished:
            return len(b)  # finaliser-time flush after the run: the world is gone
        if self.closed:
            raise ValueError("I/O operation on closed file")
        if not self._fd.writable:
            raise io.UnsupportedOperation("File not open for writing")
        return self._k.sys_write(self._fd, bytes(b))

    def seek(self, off, whence=0):
        return self._k.sys_seek(self._fd, off, whence)

    def tell(self):
        return self._fd.pos

    def truncate(self, size=None):
        if self.closed:
            raise ValueError("I/O operation on closed file")
        if not self._fd.writable:
            raise io.UnsupportedOperation("File not open for writing")
        if size is None:
            size = self._fd.pos
        return self._k.sys_truncate(self._fd, size)

    def close(self):
        if self.closed:
            return
        if self._k.finished:
            super().close()
            return
        try:
            self._k.sys_close(self._fd)
        finally:
            super().close()

    def fileno(self):
        # a number no real descriptor of this process can have; os.fsync / os.fdatasync are redirected for such numbers
        if self._fd.closed:
            raise ValueError("I/O operation on closed file")
        return SIM_FD_BASE + self._fd.fd

    def isatty(self):
        return False

    def __del__(self):
        # never let a finaliser touch the simulated world
        return


def sim_open(path, mode="r", buffering=-1, encoding=None, errors=None, newline=None):
    """Stand-in for builtins.open / Path.open on the simulated file system.
    Binary modes only (molli's storage layer uses nothing else)."""
    k = CURRENT
    if k is None:
        raise HarnessError("sim_open without a kernel")
    k.counters["seam:open"] += 1
    if "b" not in mode:
        raise HarnessError(f"SimFS supports binary modes only, got {mode!r}")
    if isinstance(path, int):
        # a descriptor obtained from os.open(): wrapped the way open(fd, mode) / os.fdopen do
        fd = k.fdtab.get(path - SIM_FD_BASE) if path >= SIM_FD_BASE else None
        if fd is None:
            raise OSError(errno.EBADF, "Bad file descriptor")
        raw = SimRaw(k, fd, fd.path)
    else:
        fd = k.sys_open(path, mode)
        raw = SimRaw(k, fd, k.norm(path))
    m = mode.replace("b", "")
    bs = k.bufsize if buffering in (-1, None) else buffering
    if bs == 0:
        return raw
    if m == "r":
        return io.BufferedReader(raw, bs)
    if "+" in m:
        return io.BufferedRandom(raw, bs)
    return io.BufferedWriter(raw, bs)


class SimPath(pathlib.PurePosixPath):
    """pathlib-like path on the simulated file system.  Pure path arithmetic is the
    real pathlib code; only the calls that touch a file system are redirected."""

    def open(self, mode="r", buffering=-1, encoding=None, errors=None, newline=None):
        return sim_open(self, mode, buffering, encoding, errors, newline)

    def is_file(self):
        return CURRENT.sys_stat(self)

    def exists(self):
        return CURRENT.sys_stat(self)

    def is_dir(self):
        return False

    def stat(self, *a, **kw):
        import os as _os

        return _os.stat(self)

    def resolve(self, strict=False):
        return type(self)(CURRENT.norm(self))

    def absolute(self):
        return type(self)(CURRENT.norm(self))

    def unlink(self, missing_ok=False):
        try:
            CURRENT.sys_unlink(self)
        except FileNotFoundError:
            if not missing_ok:
                raise

    def mkdir(self, *a, **kw):
        return None

    def read_bytes(self):
        with self.open("rb") as f:
            return f.read()

    def __fspath__(self):
        return str(self)


def install(kernel: Kernel | None):
    global CURRENT
    CURRENT = kernel
