"""Seed derivation: one integer (VERIF_SEED) decides everything.

run_seed(check, i) = first 8 bytes of sha256("<VERIF_SEED>/<check>/<i>").
A run's plan is generated from random.Random(run_seed); the schedule PRNG is
seeded from a value stored *in the plan*, so executing a plan is a pure function
of (plan, code under test).
"""
from __future__ import annotations

import hashlib
import os
import random


def base_seed() -> int:
    try:
        return int(os.environ.get("VERIF_SEED", "0"))
    except ValueError:
        return 0


def run_seed(check: str, index: int, seed: int | None = None) -> int:
    s = base_seed() if seed is None else seed
    h = hashlib.sha256(f"{s}/{check}/{index}".encode()).digest()
    return int.from_bytes(h[:8], "big")


def rng_for(check: str, index: int, seed: int | None = None) -> random.Random:
    return random.Random(run_seed(check, index, seed))


def sub_rng(seed: int, label: str) -> random.Random:
    h = hashlib.sha256(f"{seed}/{label}".encode()).digest()
    return random.Random(int.from_bytes(h[:8], "big"))


def digest(obj) -> str:
    """Stable digest of a JSON-like / tuple structure (repr of sorted-stable data)."""
    return hashlib.sha256(repr(obj).encode()).hexdigest()[:16]
