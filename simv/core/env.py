"""Process-level bootstrap: hash seed, sandbox directory, MOLLI_HOME, repo selection.

Must be imported (and `bootstrap()` called) before `molli` is imported.
"""
from __future__ import annotations

import atexit
import os
import shutil
import sys

VERIF_ROOT = os.path.dirname(os.path.dirname(os.path.dirname(os.path.abspath(__file__))))
SANDBOX = None
REPO = None


def reexec_with_hashseed():
    """Determinism does not rely on this (self-tests run under other hash seeds),
    but a fixed hash seed removes one source of run-to-run variation in logs."""
    if os.environ.get("PYTHONHASHSEED") is None:
        env = dict(os.environ)
        env["PYTHONHASHSEED"] = "0"
        os.execve(sys.executable, [sys.executable] + sys.argv, env)


def bootstrap():
    global SANDBOX, REPO
    if SANDBOX is not None:
        return SANDBOX
    REPO = os.path.abspath(os.environ.get("VERIF_REPO", "/repo"))
    if REPO != "/repo":
        sys.path.insert(0, REPO)
    base = "/dev/shm" if os.path.isdir("/dev/shm") and os.access("/dev/shm", os.W_OK) else "/tmp"
    SANDBOX = os.path.join(base, f"molli-verif-{os.getpid()}")
    os.makedirs(SANDBOX, exist_ok=True)
    home = os.path.join(SANDBOX, "home")
    os.makedirs(home, exist_ok=True)
    os.environ["MOLLI_HOME"] = home
    for v in ("MOLLI_DATA_DIR", "MOLLI_BACKUP_DIR", "MOLLI_SCRATCH_DIR", "MOLLI_SHARED_DIR"):
        os.environ.pop(v, None)
    os.environ.setdefault("SEDENMARKLAB_MOLLI_VERIF", "1")
    # The process works in a private directory that holds only symbolic links: `ln -> .` and `lnk_libN.ukv -> libN.ukv`.
    # No regular file is ever created there (library files live on the simulated file system, whose namespace is rooted
    # here), but the links let a workload name one library through a symlinked directory or file, and molli's
    # rwlock() - which resolves paths on the REAL file system - sees the same aliasing as the simulated kernel does.
    # The directory is the SAME for every process (it is never written to after the links exist): absolute library
    # paths, and with them the lock-file names molli derives from them, are then identical in every process that
    # executes or replays a run.
    cwd = os.path.join(base, "molli-verif-cwd")
    os.makedirs(cwd, exist_ok=True)
    for link, target in [("ln", ".")] + [(f"lnk_lib{i}.ukv", f"lib{i}.ukv") for i in range(3)]:
        lp = os.path.join(cwd, link)
        if not os.path.islink(lp):
            try:
                os.symlink(target, lp)
            except FileExistsError:
                pass
    # a tree under test that reached the REAL file system around a seam (reported as SEAM-LOST by the run that saw it) may
    # have left regular files here: they must not turn later, unrelated runs into harness errors
    for fn in os.listdir(cwd):
        fp = os.path.join(cwd, fn)
        if not os.path.islink(fp) and os.path.isfile(fp):
            try:
                os.remove(fp)
            except OSError:
                pass
    os.chdir(cwd)
    owner = os.getpid()

    def _cleanup():
        if os.getpid() == owner:
            shutil.rmtree(SANDBOX, ignore_errors=True)

    atexit.register(_cleanup)
    import warnings

    warnings.filterwarnings("ignore")
    _install_atexit_capture()
    if REPO != "/repo":
        # a scratch copy / snapshot of the repository usually lacks the compiled extension (git-ignored): take the one
        # built in /repo, otherwise the source directory molli_xt/ would be imported as an empty namespace package
        import glob
        import importlib.util

        so = glob.glob(os.path.join(REPO, "molli_xt*.so")) or glob.glob("/repo/molli_xt*.so")
        if so and "molli_xt" not in sys.modules:
            spec = importlib.util.spec_from_file_location("molli_xt", so[0])
            mod = importlib.util.module_from_spec(spec)
            spec.loader.exec_module(mod)
            sys.modules["molli_xt"] = mod
    import molli  # noqa: F401

    _BOOT["done"] = True
    mf = os.path.abspath(molli.__file__)
    if not mf.startswith(REPO + os.sep):
        raise RuntimeError(f"molli imported from {mf}, expected under {REPO}")
    return SANDBOX


# Process-exit hooks that molli registers with the real `atexit` while it is being IMPORTED belong to every process
# that imports molli - i.e. to every simulated process.  They are captured here and run by the kernel at each simulated
# process exit.  Hooks molli registers later with the real atexit (outside the patched storage seam, e.g. backends
# created by C17/C18 on the real file system) are dropped: in a checker process they would only pile up.
IMPORT_ATEXIT_HOOKS = []
_BOOT = {"done": False}


def _install_atexit_capture():
    real_register = atexit.register

    def register(fn, *a, **kw):
        mod = getattr(fn, "__module__", None) or getattr(getattr(fn, "__func__", None), "__module__", "") or ""
        if mod.startswith("molli"):
            if not _BOOT["done"]:
                IMPORT_ATEXIT_HOOKS.append((fn, a, kw))
            return fn
        return real_register(fn, *a, **kw)

    atexit.register = register


def repo_head() -> str:
    import subprocess

    try:
        return subprocess.run(["git", "-C", REPO or "/repo", "rev-parse", "--short", "HEAD"],
                              capture_output=True, text=True, timeout=20).stdout.strip()
    except Exception:  # noqa: BLE001
        return "unknown"
