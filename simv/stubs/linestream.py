"""FaultyLineStream: the simulated text channel under molli's readers.

Delivers a text the way an open text file does (iteration / readline / read, context
manager), applying the run's faults while delivering: end of data at an arbitrary byte,
a dropped line, a duplicated line, a corrupted token.  Counts every delivery so that a
reader that keeps pulling after the end is caught deterministically.
"""
from __future__ import annotations


class StreamOveruse(Exception):
    """The reader asked for far more lines than the stream ever held (it does not terminate)."""


def apply_faults(text: str, faults: list[dict]) -> str:
    """Deterministic damage, applied in order.  Fault forms:
    {"kind":"eof","at":byte_offset}  {"kind":"drop_line","line":i}  {"kind":"dup_line","line":i}
    {"kind":"corrupt","line":i,"tok":j,"with":text}  {"kind":"set_line","line":i,"text":...}"""
    for f in faults:
        k = f["kind"]
        if k == "eof":
            text = text[: f["at"]]
            continue
        lines = text.splitlines(keepends=True)
        i = f["line"]
        if i >= len(lines):
            continue
        if k == "drop_line":
            del lines[i]
        elif k == "dup_line":
            lines.insert(i, lines[i] if lines[i].endswith("\n") else lines[i] + "\n")
        elif k == "corrupt":
            body = lines[i].rstrip("\n")
            nl = lines[i][len(body):]
            toks = body.split()
            j = f["tok"]
            if j < len(toks):
                # replace the j-th whitespace-separated token in place (keeps the column layout otherwise)
                pos = 0
                for t_i, t in enumerate(toks):
                    pos = body.index(t, pos)
                    if t_i == j:
                        body = body[:pos] + f["with"] + body[pos + len(t):]
                        break
                    pos += len(t)
            lines[i] = body + nl
        elif k == "set_line":
            nl = "\n" if lines[i].endswith("\n") else ""
            lines[i] = f["text"] + nl
        text = "".join(lines)
    return text


class FaultyLineStream:
    def __init__(self, text: str, slack: int = 64):
        self._lines = text.splitlines(keepends=True)
        self._i = 0
        self.delivered = 0
        self.calls = 0
        self.closed = False
        self._cap = 4 * len(self._lines) + slack

    # -- iteration protocol (what LineReader uses: next(stream))
    def __iter__(self):
        return self

    def __next__(self):
        self.calls += 1
        if self.calls > self._cap:
            raise StreamOveruse(f"{self.calls} reads on a stream of {len(self._lines)} lines")
        if self.closed:
            raise ValueError("I/O operation on closed file.")
        if self._i >= len(self._lines):
            raise StopIteration
        line = self._lines[self._i]
        self._i += 1
        self.delivered += 1
        return line

    def readline(self, size=-1):
        try:
            return next(self)
        except StopIteration:
            return ""

    def readlines(self, hint=-1):
        return list(self)

    def read(self, n=-1):
        out = "".join(self._lines[self._i:])
        self.delivered += len(self._lines) - self._i
        self._i = len(self._lines)
        return out

    def readable(self):
        return True

    def close(self):
        self.closed = True

    def __enter__(self):
        return self

    def __exit__(self, *a):
        self.close()
        return False
