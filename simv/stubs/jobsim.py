"""Process-seam stubs for molli.pipeline (C17, C18).

FakeExec     - stands in for the external programs (`run` as seen by molli.pipeline.runner):
               a tiny scripted-program table; logs what every command could observe.
SimSpawn     - stands in for spawning `_molli_run` (`run` as seen by molli.pipeline.job):
               runs the REAL molli.pipeline.runner.run_local in-process as a simulated child
               (argv, cwd, exit status, stderr), or kills it at a scripted point.
SimExecutor  - stands in for ThreadPoolExecutor inside jobmap: completion order is a seeded
               function of the job's input-file name (independent of submission order).
SimTqdm      - stands in for tqdm; also the place where a driver interrupt (Ctrl-C) strikes.
"""
from __future__ import annotations

import contextlib
import hashlib
import io
import logging
import os
import subprocess
import sys
from collections import Counter


class SimKill(BaseException):
    """The simulated child process (_molli_run) is killed while running a command."""


class SimInterrupt(BaseException):
    """Ctrl-C / scheduler pre-emption of the driver process inside jobmap."""


# ---------------------------------------------------------------------------------- external programs
class FakeExec:
    """behaviours: program name (argv[0]) -> callable(argv, ctx) -> dict(rc=int, out=str, err=str, files={name: bytes}, delete=[names])
    ctx gives cwd listing, input file contents, env."""

    def __init__(self, behaviour):
        self.behaviour = behaviour
        self.log = []          # dicts: argv, cwd, env, listing, files, rc
        self.count = Counter()  # per argv-key execution counter
        self.hook = None        # callable(argv, rec): runs while this command is "executing" (e.g. lets another job run meanwhile)

    def __call__(self, argv, cwd=None, env=None, stdout=None, stderr=None, encoding=None, **kw):
        cwd = os.fspath(cwd) if cwd is not None else os.getcwd()
        listing = sorted(os.listdir(cwd))
        contents = {}
        for fn in listing:
            p = os.path.join(cwd, fn)
            if os.path.isfile(p) and os.path.getsize(p) < 1 << 16:
                with open(p, "rb") as f:
                    contents[fn] = f.read()
        rec = {"argv": list(argv), "cwd": cwd, "real_cwd": os.getcwd(), "env": dict(env) if env is not None else None,
               "listing": listing, "contents": contents, "timeout": kw.get("timeout")}
        self.log.append(rec)
        if self.hook is not None:
            self.hook(list(argv), rec)
        act = self.behaviour(list(argv), rec, self)
        rec["rc"] = act.get("rc", 0)
        if act.get("kill"):
            raise SimKill()
        if act.get("raise") is not None:
            # the program could not be started at all (not found, not executable): subprocess.run raises
            rec["rc"] = None
            raise act["raise"]
        for fn, data in act.get("files", {}).items():
            with open(os.path.join(cwd, fn), "wb") as f:
                f.write(data)
        for fn in act.get("delete", []):
            try:
                os.remove(os.path.join(cwd, fn))
            except FileNotFoundError:
                pass
        # what subprocess.run does with the program's output: written to the handle it was given (text or binary), or -
        # with capture_output / PIPE - handed back in the CompletedProcess (str when a text mode was asked for)
        textmode = bool(encoding or kw.get("text") or kw.get("universal_newlines") or kw.get("errors"))
        captured = {}
        if kw.get("capture_output"):
            stdout = stderr = subprocess.PIPE
        for which, handle, text in (("stdout", stdout, act.get("out", "")), ("stderr", stderr, act.get("err", ""))):
            if handle is subprocess.PIPE:
                captured[which] = text if textmode else text.encode()
            elif handle is subprocess.STDOUT and which == "stderr":
                if stdout is subprocess.PIPE:
                    captured["stdout"] = captured.get("stdout", "" if textmode else b"") + (text if textmode else text.encode())
                elif hasattr(stdout, "write") and text:
                    stdout.write(text if not isinstance(stdout, (io.RawIOBase, io.BufferedIOBase)) else text.encode())
            elif handle is not None and handle is not subprocess.DEVNULL and hasattr(handle, "write") and text:
                handle.write(text if not isinstance(handle, (io.RawIOBase, io.BufferedIOBase)) else text.encode())
                handle.flush()
        if kw.get("timeout") is not None and act.get("duration", 0) > kw["timeout"]:
            # the program is still running when the time the caller allows is over: subprocess.run kills it and raises
            # (what it had written so far stays)
            rec["rc"] = None
            raise subprocess.TimeoutExpired(argv, kw["timeout"], output=captured.get("stdout"), stderr=captured.get("stderr"))
        if kw.get("check") and act.get("rc", 0) != 0:
            raise subprocess.CalledProcessError(act.get("rc", 0), argv, output=captured.get("stdout"), stderr=captured.get("stderr"))
        return subprocess.CompletedProcess(argv, act.get("rc", 0), stdout=captured.get("stdout"), stderr=captured.get("stderr"))


# ---------------------------------------------------------------------------------- the _molli_run child
class SimSpawn:
    """faults: dict input-file-stem -> list (per attempt) of None | {"kind": "kill_before_out"} |
    {"kind": "torn_out", "at": n} ; anything else runs to completion."""

    def __init__(self, faults=None):
        self.faults = faults or {}
        self.attempts = Counter()
        self.log = []
        self.fs_hook = None     # callable(what, src, dst): runs right BEFORE the child renames / replaces a file (a yield point)

    def __call__(self, argv, cwd=None, capture_output=False, encoding=None, **kw):
        import molli.pipeline.runner as runner

        argv = [os.fspath(a) for a in argv]
        stem = os.path.splitext(os.path.basename(argv[1]))[0]
        n = self.attempts[stem]
        self.attempts[stem] += 1
        fl = self.faults.get(stem) or []
        fault = fl[n] if n < len(fl) else None
        old_argv, old_cwd, old_err, old_out = sys.argv, os.getcwd(), sys.stderr, sys.stdout
        old_env = dict(os.environ)      # a child process has its own environment: whatever it does to it dies with it
        err, out = io.StringIO(), io.StringIO()
        sys.argv = ["_molli_run"] + argv[1:]
        rc = None
        try:
            if cwd is not None:
                os.chdir(cwd)
            sys.stderr, sys.stdout = err, out
            if fault and fault["kind"] == "kill_before_start":
                raise SimKill()
            try:
                with _subprocess_seam(runner), _rename_seam(self.fs_hook):
                    runner.run_local()
                rc = 0  # run_local always leaves through exit(); falling off the end means status 0
            except SystemExit as e:
                rc = e.code if isinstance(e.code, int) else (0 if e.code is None else 1)
            except Exception:  # noqa: BLE001 - an uncaught exception ends a Python child with status 1 and a traceback
                import traceback

                traceback.print_exc(file=err)
                rc = 1
        except SimKill:
            rc = -9
        finally:
            sys.argv = old_argv
            sys.stderr, sys.stdout = old_err, old_out
            os.chdir(old_cwd)
            if dict(os.environ) != old_env:
                os.environ.clear()
                os.environ.update(old_env)
        if fault and fault["kind"] in ("torn_out", "kill_before_out") and rc is not None:
            # the child died after its commands ran but before / while writing its output file
            odir = argv[argv.index("-o") + 1]
            of = os.path.join(odir, stem + ".out")
            if os.path.isfile(of):
                if fault["kind"] == "kill_before_out":
                    os.remove(of)
                else:
                    with open(of, "rb") as f:
                        data = f.read()
                    cut = fault.get("at", 1) % max(1, len(data))
                    with open(of, "wb") as f:
                        f.write(data[:cut])
            rc = -9
        self.log.append({"stem": stem, "attempt": n, "rc": rc, "fault": fault})
        return subprocess.CompletedProcess(argv, rc, stdout=out.getvalue(), stderr=err.getvalue())


class _FakePopen:
    """What a runner that uses subprocess.Popen directly gets: the program has 'run' when the object exists."""

    def __init__(self, fake, argv, **kw):
        self.args = argv
        cp = fake(argv, **kw)
        self.returncode = cp.returncode
        self._out, self._err = cp.stdout, cp.stderr
        self.pid = 4242
        self.stdout = self.stderr = self.stdin = None

    def wait(self, timeout=None):
        return self.returncode

    def poll(self):
        return self.returncode

    def communicate(self, input=None, timeout=None):
        return self._out, self._err

    def kill(self):
        pass

    terminate = kill

    def __enter__(self):
        return self

    def __exit__(self, *a):
        return False


@contextlib.contextmanager
def _subprocess_seam(runner):
    """However the simulated _molli_run starts its external programs - the name `run` it imported, `subprocess.run`,
    `subprocess.call`, `check_call`, `check_output` or `Popen` through the module - the call ends at the scripted program
    installed as `runner.run`.  Only while the simulated child executes (the harness starts no process meanwhile)."""
    def fake(*a, **kw):
        return runner.run(*a, **kw)

    def call(*a, **kw):
        return fake(*a, **kw).returncode

    def check_call(*a, **kw):
        kw["check"] = True
        return fake(*a, **kw).returncode

    def check_output(*a, **kw):
        kw["check"] = True
        kw["stdout"] = subprocess.PIPE
        return fake(*a, **kw).stdout

    def popen(argv, *a, **kw):
        return _FakePopen(fake, argv, **kw)

    saved = {n: getattr(subprocess, n) for n in ("run", "call", "check_call", "check_output", "Popen")}
    subprocess.run, subprocess.call, subprocess.check_call, subprocess.check_output, subprocess.Popen = fake, call, check_call, check_output, popen
    try:
        yield
    finally:
        for n, v in saved.items():
            setattr(subprocess, n, v)


@contextlib.contextmanager
def _rename_seam(hook):
    """os.replace / os.rename (pathlib's rename / replace end there too) of the simulated child are yield points: `hook`
    runs first - another runner may be scheduled between a file being written under a temporary name and its being moved
    into place."""
    if hook is None:
        yield
        return
    real_replace, real_rename = os.replace, os.rename

    def replace(src, dst, *a, **kw):
        hook("replace", os.fspath(src), os.fspath(dst))
        return real_replace(src, dst, *a, **kw)

    def rename(src, dst, *a, **kw):
        hook("rename", os.fspath(src), os.fspath(dst))
        return real_rename(src, dst, *a, **kw)

    os.replace, os.rename = replace, rename
    try:
        yield
    finally:
        os.replace, os.rename = real_replace, real_rename


def _runner_exit(code=0):
    """molli.pipeline.runner calls the site builtin exit(); that object also closes sys.stdin."""
    raise SystemExit(code)


# ---------------------------------------------------------------------------------- thread pool
class SimFuture:
    def __init__(self, ex, fn, args, kwargs, name):
        self.ex, self.fn, self.args, self.kwargs, self.name = ex, fn, args, kwargs, name
        self._done = False
        self.started = False
        self._result = None
        self._exc = None
        self._callbacks = []

    def _run(self):
        if self._done or self.started:
            return
        self.started = True
        self.ex.running.append(self)
        try:
            self._result = self.fn(*self.args, **self.kwargs)
        except Exception as e:  # noqa: BLE001 - a future stores its task's exception
            self._exc = e
        finally:
            self.ex.running.pop()
        self._done = True
        self.ex.completed.append(self.name)
        for cb in self._callbacks:
            try:
                cb(self)
            except Exception:  # noqa: BLE001 - like concurrent.futures: callback errors are logged, not raised
                pass

    # ---- the rest of the concurrent.futures.Future interface
    def done(self):
        return self._done

    def running(self):
        return self.started and not self._done

    def cancelled(self):
        return False

    def cancel(self):
        return False

    def exception(self, timeout=None):
        try:
            self.result()
        except Exception:  # noqa: BLE001
            pass
        return self._exc

    def add_done_callback(self, fn):
        if self._done:
            fn(self)
        else:
            self._callbacks.append(fn)

    def result(self, timeout=None):
        self.ex.hook("result")
        if not self._done:
            self.ex.run_before(self)
            self._run()
        if self._exc is not None:
            raise self._exc
        return self._result


def _sim_as_completed(real):
    def as_completed(fs, timeout=None):
        fs = list(fs)
        if not fs or not all(isinstance(f, SimFuture) for f in fs):
            return real(fs, timeout)

        def gen():
            for f in [f_ for f_ in fs if f_._done]:
                yield f
            # the rest complete in the seeded order of their executor
            for f in sorted((f_ for f_ in fs if not f_._done), key=lambda f_: f_.ex.f._prio(f_.name)[1]):
                if not f._done:
                    try:
                        f.result()
                    except Exception:  # noqa: BLE001 - the exception stays in the future
                        pass
                yield f
        return gen()
    return as_completed


def _sim_wait(real):
    def wait(fs, timeout=None, return_when="ALL_COMPLETED"):
        fs = list(fs)
        if not fs or not all(isinstance(f, SimFuture) for f in fs):
            return real(fs, timeout, return_when)
        import concurrent.futures as cf

        order = sorted((f_ for f_ in fs if not f_._done), key=lambda f_: f_.ex.f._prio(f_.name)[1])
        for f in order:
            if not f._done:
                try:
                    f.result()
                except Exception:  # noqa: BLE001
                    pass
            if return_when == "FIRST_COMPLETED" or (return_when == "FIRST_EXCEPTION" and f._exc is not None):
                break
        return cf._base.DoneAndNotDoneFutures({f_ for f_ in fs if f_._done}, {f_ for f_ in fs if not f_._done})
    return wait


class SimExecutorFactory:
    """Instances stand in for ThreadPoolExecutor(max_workers=...).  Scheduling of a task is a seeded
    function of its name: phase 0 = completes at its own submit; phase 1 = completes when somebody
    waits, in priority order; phase 2 = completes at executor shutdown."""

    def __init__(self, seed: int, hook=None):
        self.seed = seed
        self.hook = hook or (lambda what: None)
        self.executors = []
        self.overlaps = 0

    def _prio(self, name):
        h = hashlib.sha256(f"{self.seed}/{name}".encode()).digest()
        return h[0] % 3, int.from_bytes(h[1:9], "big")

    def __call__(self, max_workers=None, **kw):
        ex = _SimExecutor(self)
        ex.max_workers = max_workers
        self.executors.append(ex)
        return ex

    def overlap_hook(self, argv, rec):
        """Called by FakeExec while a command of the running task executes: with more than one worker another pending
        task may run (entirely) in the meantime - a legal interleaving of two runners, decided by the seed and the two
        task names.  Nesting depth is limited to the pool size."""
        for ex in self.executors:
            if not ex.running:
                continue
            if ex.max_workers is not None and len(ex.running) >= max(1, ex.max_workers):
                continue
            cur = ex.running[-1]
            for other in sorted(ex.pending, key=lambda x: x.name):
                if other.started or other._done or other is cur:
                    continue
                h = hashlib.sha256(f"{self.seed}/overlap/{cur.name}/{other.name}".encode()).digest()
                if h[0] % 3 == 0:
                    self.overlaps += 1
                    other._run()
            ex.pending = [p_ for p_ in ex.pending if not p_._done]


class _SimExecutor:
    def __init__(self, factory):
        self.f = factory
        self.pending = []
        self.completed = []
        self.running = []
        self.max_workers = None
        self.hook = factory.hook

    def __enter__(self):
        return self

    def __exit__(self, et, ev, tb):
        # shutdown(wait=True): everything submitted runs to completion, also when unwinding
        for fut in sorted(self.pending, key=lambda x: self.f._prio(x.name)[1]):
            fut._run()
        self.pending = []
        return False

    def submit(self, fn, *args, **kwargs):
        self.hook("submit")
        name = os.path.basename(os.fspath(args[0])) if args else fn.__name__
        fut = SimFuture(self, fn, args, kwargs, name)
        self.pending.append(fut)
        if self.f._prio(name)[0] == 0:
            fut._run()
            self.pending.remove(fut)
        return fut

    def run_before(self, fut):
        mine = self.f._prio(fut.name)[1]
        for other in sorted(self.pending, key=lambda x: self.f._prio(x.name)[1]):
            ph, pr = self.f._prio(other.name)
            if other is not fut and not other._done and ph == 1 and pr < mine:
                other._run()
        self.pending = [p for p in self.pending if not p._done and p is not fut]


# ---------------------------------------------------------------------------------- progress bars / interrupts
class SimTqdmFactory:
    """interrupt: None or {"phase": substring of desc, "at": k} -> SimInterrupt raised before yielding item k."""

    def __init__(self, interrupt=None):
        self.interrupt = interrupt
        self.fired = False
        self.seen = []

    def __call__(self, iterable=None, desc=None, total=None, disable=False, **kw):
        if desc is None and "__desc" in kw:
            desc = kw["__desc"]
        return _SimTqdm(self, iterable, desc or "")


class _SimTqdm:
    def __init__(self, f, iterable, desc):
        self.f, self.iterable, self.desc = f, iterable, desc

    def __iter__(self):
        it = self.f.interrupt
        for k, x in enumerate(self.iterable if self.iterable is not None else ()):
            if it is not None and not self.f.fired and it["phase"] in self.desc and k == it["at"]:
                self.f.fired = True
                raise SimInterrupt(f"interrupt in phase {self.desc!r} before item {k}")
            yield x

    def write(self, *a, **k):
        return None

    def update(self, *a, **k):
        return None

    def __enter__(self):
        return self

    def __exit__(self, *a):
        return False


# ---------------------------------------------------------------------------------- object identity
class SimId:
    """Stand-in for the builtin id() as seen by molli.pipeline modules.  Which address a new object gets is up to the
    allocator - a source of nondeterminism like any other.  Here identities are small integers handed out in creation
    order, and the identity of an object that died is given to the NEXT object that asks: address reuse happens always
    and repeatably, so code that remembers things per id() of objects that may be gone is exposed deterministically."""

    BASE = 0x7F0000000000

    def __init__(self):
        import heapq

        self._hq = heapq
        self.free = []
        self.next = 0
        self.live = {}

    def _release(self, key):
        ent = self.live.pop(key, None)
        if ent is not None:
            self._hq.heappush(self.free, ent[1])

    def __call__(self, obj):
        import builtins
        import weakref

        key = builtins.id(obj)
        ent = self.live.get(key)
        if ent is not None and ent[0]() is obj:
            return self.BASE + 16 * ent[1]
        try:
            ref = weakref.ref(obj, lambda _r, key=key: self._release(key))
        except TypeError:
            return key
        if self.free:
            n = self._hq.heappop(self.free)
        else:
            n = self.next
            self.next += 1
        self.live[key] = (ref, n)
        return self.BASE + 16 * n


# ---------------------------------------------------------------------------------- seam installation
def hook_path_class(hook):
    """A pathlib.Path whose directory-metadata calls (exists / is_dir / mkdir) are yield points: `hook(path, what)` runs
    first.  Lets a second runner be scheduled between another runner's look at a directory and its creation of it."""
    import pathlib

    class HookPath(type(pathlib.Path())):
        def exists(self, *a, **kw):
            hook(self, "exists")
            return super().exists(*a, **kw)

        def is_dir(self, *a, **kw):
            hook(self, "is_dir")
            return super().is_dir(*a, **kw)

        def mkdir(self, *a, **kw):
            hook(self, "mkdir")
            return super().mkdir(*a, **kw)

    return HookPath


@contextlib.contextmanager
def pipeline_seams(fake: FakeExec, spawn: SimSpawn | None = None, executor: SimExecutorFactory | None = None,
                   tqdm: SimTqdmFactory | None = None, runner_path=None):
    import molli.pipeline.job as job
    import molli.pipeline.runner as runner

    import molli.pipeline.driver as driver

    sim_id = SimId()
    patches = [(runner, "run", fake), (runner, "exit", _runner_exit), (job, "id", sim_id), (driver, "id", sim_id)]
    if runner_path is not None:
        patches.append((runner, "Path", runner_path))
    if spawn is not None:
        patches.append((job, "run", spawn))
    if executor is not None:
        patches.append((job, "ThreadPoolExecutor", executor))
        # whatever way jobmap collects its futures (result() in submission order, as_completed, wait): simulated futures
        # complete in the seeded order
        import concurrent.futures as _cf

        sim_ac, sim_w = _sim_as_completed(_cf.as_completed), _sim_wait(_cf.wait)
        patches += [(_cf, "as_completed", sim_ac), (_cf, "wait", sim_w)]
        for n_, v_ in list(vars(job).items()):
            if v_ is _cf.as_completed:
                patches.append((job, n_, sim_ac))
            elif v_ is _cf.wait:
                patches.append((job, n_, sim_w))
            elif v_ is _cf.ThreadPoolExecutor and n_ != "ThreadPoolExecutor":
                patches.append((job, n_, executor))
    patches.append((job, "tqdm", tqdm or SimTqdmFactory()))
    # tempfile draws the names of scratch directories from os.urandom: one more source of nondeterminism (the names end
    # up in tracebacks, listings, logs).  Behind the seam they are sim000000, sim000001, ... per installation.
    import tempfile

    class _Names:
        def __init__(self):
            self.n = 0

        def __iter__(self):
            return self

        def __next__(self):
            self.n += 1
            return f"sim{self.n - 1:06d}"

    patches.append((tempfile, "_name_sequence", _Names()))
    missing = object()
    saved = []
    for mod, name, val in patches:
        saved.append((mod, name, mod.__dict__.get(name, missing)))
        setattr(mod, name, val)
    try:
        yield
    finally:
        for mod, name, old in reversed(saved):
            if old is missing:
                try:
                    delattr(mod, name)
                except AttributeError:
                    pass
            else:
                setattr(mod, name, old)
        # jobmap adds a logging.FileHandler per call and never removes it
        for lname in ("molli.pipeline", "molli.pipeline.jobmap"):
            lg = logging.getLogger(lname)
            for h in list(lg.handlers):
                lg.removeHandler(h)
                try:
                    h.close()
                except Exception:  # noqa: BLE001
                    pass
