#!/venv/bin/python
"""Confirm and evaluate one independently made BENIGN (property-preserving) change: every check must stay quiet.

  tools/seeded_eval.py <PROPERTY> <srcdir> <name> [--tier quick|thorough] [--checks C03,C02]

srcdir holds patch.diff, demo.py (and notes.md) as delivered by a sub-agent.  Steps, all
in a scratch worktree of /repo HEAD under /tmp (removed afterwards):
  1. demo on the clean tree must PASS (exit 0);
  2. patch applies; demo on the changed tree must FAIL (exit != 0);
  3. the unedited test suite must still give 81 passed and the same 4 failures;
  4. the registered check(s) run against the changed tree (VERIF_REPO) - caught or missed.
The change is stored as /verif/seeded/<name>/ only if 1-3 hold.
"""
import argparse
import json
import os
import re
import shutil
import subprocess
import sys

ap = argparse.ArgumentParser()
ap.add_argument("prop")
ap.add_argument("srcdir")
ap.add_argument("name")
ap.add_argument("--tier", default="quick")
ap.add_argument("--checks", default=None)
ap.add_argument("--no-store", action="store_true")
a = ap.parse_args()

W = f"/tmp/sv-{a.name}-{os.getpid()}"
OUT = f"/dev/shm/sv-out-{a.name}-{os.getpid()}"
HOME = f"/dev/shm/sv-home-{a.name}-{os.getpid()}"
VSNAP = f"/tmp/sv-verif-{a.name}-{os.getpid()}"   # the checks run from a snapshot of /verif's HEAD: edits made meanwhile do not disturb them
BASE_FAIL = {"test_conformer_to_lib", "test_ensemble_lib", "test_load_all", "test_loads_all"}


def sh(cmd, **kw):
    return subprocess.run(cmd, shell=isinstance(cmd, str), capture_output=True, text=True, **kw)


def demo(tag):
    e = dict(os.environ)
    e["MOLLI_HOME"] = HOME + "-demo-" + tag
    e["PYTHONPATH"] = W
    p = sh(["/venv/bin/python", os.path.join(a.srcdir, "demo.py")], cwd=W, env=e, timeout=900)
    shutil.rmtree(e["MOLLI_HOME"], ignore_errors=True)
    return p.returncode, (p.stdout + p.stderr)[-1500:]


meta = {"property": a.prop, "name": a.name, "kind": "benign", "source": "independent sub-agent given only the property record and a scratch worktree, asked for a property-PRESERVING change"}
sh(["git", "-C", "/repo", "worktree", "add", "-q", "--detach", W, "HEAD"])
sh(["git", "-C", "/verif", "worktree", "add", "-q", "--detach", VSNAP, "HEAD"])
try:
    for f in os.listdir("/repo"):
        if f.startswith("molli_xt") and f.endswith(".so"):
            shutil.copy(os.path.join("/repo", f), W)
    meta["repo_head"] = sh(["git", "-C", "/repo", "rev-parse", "--short", "HEAD"]).stdout.strip()
    rc0, out0 = demo("clean")
    meta["demo_on_clean_tree"] = {"exit": rc0, "tail": out0[-300:]}
    ap_ = sh(["git", "-C", W, "apply", os.path.join(os.path.abspath(a.srcdir), "patch.diff")])
    meta["patch_applies"] = ap_.returncode == 0
    if ap_.returncode != 0:
        print("PATCH DOES NOT APPLY:", ap_.stderr)
        meta["confirmed"] = False
    else:
        rc1, out1 = demo("patched")
        meta["demo_on_changed_tree"] = {"exit": rc1, "tail": out1[-600:]}
        e = dict(os.environ)
        e["MOLLI_HOME"] = HOME + "-suite"
        t = sh("/venv/bin/python -m pytest -q -p no:cacheprovider --timeout=900 molli_test 2>&1 | tail -8", cwd=W, env=e, timeout=1800)
        shutil.rmtree(e["MOLLI_HOME"], ignore_errors=True)
        tail = t.stdout
        m = re.search(r"(\d+) failed, (\d+) passed", tail)
        failed = set(re.findall(r"::(test_\w+)", tail))
        meta["test_suite"] = {"summary": tail.strip().splitlines()[-1] if tail.strip() else "", "failed": sorted(failed)}
        suite_ok = bool(m) and int(m.group(2)) == 81 and failed == BASE_FAIL
        meta["confirmed"] = rc0 == 0 and rc1 == 0 and suite_ok      # the demo passes on BOTH trees
        print(f"[benign] demo clean={rc0} changed={rc1} (both must be 0) suite_ok={suite_ok} ({meta['test_suite']['summary']})")
        # ---- our checks against the changed tree
        checks = (a.checks.split(",") if a.checks else [a.prop])
        meta["checks"] = {}
        for cid in checks:
            e = dict(os.environ)
            e["VERIF_REPO"] = W
            e["VERIF_OUT_DIR"] = OUT
            p = sh([os.path.join(VSNAP, "check"), cid, "--tier", a.tier], env=e, timeout=7200)
            viol = re.findall(r"VIOLATION property=\S+ replay=\S+\n\s+clause=(\S+) signature=(\S+)", p.stdout)
            meta["checks"][cid] = {"exit": p.returncode, "quiet": p.returncode == 0,
                                   "signatures": [s for _c, s in viol][:6], "last_line": p.stdout.strip().splitlines()[-1] if p.stdout.strip() else p.stderr[-300:]}
            print(f"  {cid} ({a.tier}): exit={p.returncode} {'ALARM' if p.returncode == 1 else 'quiet' if p.returncode == 0 else 'HARNESS-ERROR'} {[s for _c, s in viol][:3]}")
            if p.returncode not in (0, 1):
                print(p.stdout[-800:], p.stderr[-800:])
finally:
    sh(["git", "-C", "/repo", "worktree", "remove", "--force", W])
    sh(["git", "-C", "/repo", "worktree", "prune"])
    sh(["git", "-C", "/verif", "worktree", "remove", "--force", VSNAP])
    sh(["git", "-C", "/verif", "worktree", "prune"])
    shutil.rmtree(OUT, ignore_errors=True)

if meta.get("confirmed") and not a.no_store:
    d = f"/verif/benign_seeded/{a.name}"
    os.makedirs(d, exist_ok=True)
    shutil.copy(os.path.join(a.srcdir, "patch.diff"), d)
    shutil.copy(os.path.join(a.srcdir, "demo.py"), d)
    if os.path.isfile(os.path.join(a.srcdir, "notes.md")):
        with open(os.path.join(a.srcdir, "notes.md")) as f:
            meta["needs_to_manifest"] = f.read()[:3000]
    meta["what_was_run"] = ["demo.py on clean worktree (PASS)", "git apply patch.diff; demo.py (PASS)", "pytest molli_test (81 passed, same 4 failing)",
                            f"./check {','.join(meta.get('checks', {}))} --tier {a.tier} with VERIF_REPO=<changed worktree>"]
    with open(os.path.join(d, "meta.json"), "w") as f:
        json.dump(meta, f, indent=1)
    print("stored", d)
elif not meta.get("confirmed"):
    print("NOT CONFIRMED:", json.dumps(meta, indent=1)[:1500])
