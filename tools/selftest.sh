#!/bin/sh
# Development-time self-test of the machinery (not registered in MANIFEST):
#   1. every quick check on the unchanged tree must exit 0;
#   2. a few representative mutants must be caught (exit 1) and their replay files must reproduce
#      (exit 1 from ./check replay on the mutated tree, exit 3 NOT-REPRODUCED on the unchanged tree).
cd "$(dirname "$0")/.." || exit 2
fail=0
for id in C02 C03 C04 C10 C14 C17 C18; do
  ./check $id --tier quick >/tmp/selftest.$id.log 2>&1; rc=$?
  echo "unchanged tree $id: exit $rc $(tail -1 /tmp/selftest.$id.log)"
  [ $rc -eq 0 ] || fail=1
done
for pair in "c02_no_dup_check:C02" "c04_reading_nolock:C04" "c10_xyz_short_final_frame:C10" "c14_cursor_shared_again:C14" "c17_no_break_after_failure:C17" "c18_no_hash_comparison:C18"; do
  m=${pair%%:*}; id=${pair##*:}
  REPLAY_CHECK=1 KEEP_OUT=1 tools/mutant.sh tools/mutants/$m.diff $id quick >/tmp/selftest.$m.log 2>&1; rc=$?
  echo "mutant $m vs $id: exit $rc (want 1; 4 = a replay did not reproduce on the changed tree)"
  [ $rc -eq 1 ] || fail=1
  out=$(grep -o "outputs kept in .*" /tmp/selftest.$m.log | sed 's/outputs kept in //')
  f=$(ls $out/replays/$id/*.json 2>/dev/null | head -1)
  if [ -n "$f" ]; then
    ./check replay "$f" >/dev/null 2>&1; r2=$?
    echo "  replay of $(basename $f) on the unchanged tree: exit $r2 (want 3 = not reproduced)"
    [ $r2 -eq 3 ] || fail=1
  fi
  rm -rf "$out"
done
[ $fail -eq 0 ] && echo "SELFTEST OK" || echo "SELFTEST FAILED"
exit $fail
