#!/venv/bin/python
"""Create a mutant patch: tools/mkmutant.py <name> <file> <<< 'OLD\n====\nNEW'  (exact-text replacement in a scratch worktree)."""
import subprocess, sys, os, tempfile, shutil
name, relfile = sys.argv[1], sys.argv[2]
spec = sys.stdin.read()
old, new = spec.split("\n====\n")
old = old.strip("\n"); new = new.rstrip("\n").lstrip("\n") if new.strip() else ""
W = tempfile.mkdtemp(prefix="molli-mk-", dir="/dev/shm")
os.rmdir(W)
subprocess.check_call(["git", "-C", "/repo", "worktree", "add", "-q", "--detach", W, "HEAD"])
try:
    p = os.path.join(W, relfile)
    s = open(p).read()
    if s.count(old) != 1:
        print(f"OLD text occurs {s.count(old)} times", file=sys.stderr); sys.exit(1)
    open(p, "w").write(s.replace(old, new))
    diff = subprocess.check_output(["git", "-C", W, "diff"]).decode()
    os.makedirs("/verif/tools/mutants", exist_ok=True)
    open(f"/verif/tools/mutants/{name}.diff", "w").write(diff)
    print(f"wrote tools/mutants/{name}.diff ({len(diff.splitlines())} lines)")
finally:
    subprocess.call(["git", "-C", "/repo", "worktree", "remove", "--force", W])
