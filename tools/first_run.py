#!/venv/bin/python
"""How did the machinery AS IT STOOD at <rev> do against a stored seeded change?

  tools/first_run.py <rev> <name> [<name> ...]      e.g. tools/first_run.py de5ea13 C02-r5A C02-r5B

For each /verif/seeded/<name>/ the patch is applied to a scratch worktree of /repo HEAD and the check(s) named in its
meta.json (or --checks) are run from a snapshot of /verif at <rev>.  The outcome is written into meta.json as
"first_evaluation_at": {rev, checks: {ID: {exit, caught, signatures}}} - the honest "before strengthening" column of
the tables in DESIGN.md.  Scratch trees are removed afterwards.
"""
import argparse
import json
import os
import re
import shutil
import subprocess

ap = argparse.ArgumentParser()
ap.add_argument("rev")
ap.add_argument("names", nargs="+")
ap.add_argument("--checks", default=None)
a = ap.parse_args()


def sh(cmd, **kw):
    return subprocess.run(cmd, capture_output=True, text=True, **kw)


VS = f"/tmp/fr-verif-{os.getpid()}"
sh(["git", "-C", "/verif", "worktree", "add", "-q", "--detach", VS, a.rev])
try:
    for name in a.names:
        d = f"/verif/seeded/{name}"
        meta = json.load(open(os.path.join(d, "meta.json")))
        checks = a.checks.split(",") if a.checks else sorted(meta.get("checks") or [meta["property"]])
        W = f"/tmp/fr-{name}-{os.getpid()}"
        OUT = f"/dev/shm/fr-out-{name}-{os.getpid()}"
        sh(["git", "-C", "/repo", "worktree", "add", "-q", "--detach", W, "HEAD"])
        try:
            for f in os.listdir("/repo"):
                if f.startswith("molli_xt") and f.endswith(".so"):
                    shutil.copy(os.path.join("/repo", f), W)
            p = sh(["git", "-C", W, "apply", os.path.join(d, "patch.diff")])
            if p.returncode:
                print(name, "patch does not apply", p.stderr)
                continue
            out = {}
            for cid in checks:
                e = dict(os.environ, VERIF_REPO=W, VERIF_OUT_DIR=OUT)
                r = sh([os.path.join(VS, "check"), cid, "--tier", "quick"], env=e, timeout=7200)
                sigs = re.findall(r"VIOLATION property=\S+ replay=\S+\n\s+clause=\S+ signature=(\S+)", r.stdout)
                out[cid] = {"exit": r.returncode, "caught": r.returncode == 1, "signatures": sigs[:4]}
                print(f"{name} vs {cid}@{a.rev}: exit={r.returncode} {'CAUGHT' if r.returncode == 1 else 'MISSED' if r.returncode == 0 else 'NOT DECIDED'} {sigs[:2]}")
                if r.returncode not in (0, 1):
                    print(r.stdout[-600:])
            meta["first_evaluation_at"] = {"verif_rev": a.rev, "checks": out}
            json.dump(meta, open(os.path.join(d, "meta.json"), "w"), indent=1)
        finally:
            sh(["git", "-C", "/repo", "worktree", "remove", "--force", W])
            shutil.rmtree(OUT, ignore_errors=True)
finally:
    sh(["git", "-C", "/repo", "worktree", "prune"])
    sh(["git", "-C", "/verif", "worktree", "remove", "--force", VS])
    sh(["git", "-C", "/verif", "worktree", "prune"])
