#!/venv/bin/python
"""Create a BENIGN change (a refactoring that keeps every property): tools/mkbenign.py <name> <file> <regex> <replacement> [<file> <regex> <replacement> ...]
The patch goes to tools/benign/<name>.diff; tools/benign.sh runs the checks against each and expects exit 0."""
import os, re, subprocess, sys, tempfile
name = sys.argv[1]
trip = sys.argv[2:]
W = tempfile.mkdtemp(prefix="molli-bn-", dir="/dev/shm"); os.rmdir(W)
subprocess.check_call(["git", "-C", "/repo", "worktree", "add", "-q", "--detach", W, "HEAD"])
try:
    for i in range(0, len(trip), 3):
        f, rx, rep = trip[i:i + 3]
        p = os.path.join(W, f)
        s = open(p).read()
        s2, n = re.subn(rx, rep, s, flags=re.M)
        if n == 0:
            print(f"no match for {rx!r} in {f}", file=sys.stderr); sys.exit(1)
        open(p, "w").write(s2)
        print(f"{f}: {n} replacements")
    diff = subprocess.check_output(["git", "-C", W, "diff"]).decode()
    open(f"/verif/tools/benign/{name}.diff", "w").write(diff)
    r = subprocess.run(["/venv/bin/python", "-c", "import molli"], cwd=W, capture_output=True, text=True)
    print("import ok" if r.returncode == 0 else "IMPORT FAILS: " + r.stderr[-300:])
finally:
    subprocess.call(["git", "-C", "/repo", "worktree", "remove", "--force", W])
