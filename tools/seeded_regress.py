#!/venv/bin/python
"""Regression over every stored seeded change: is each one still caught by the check named in its meta.json?

  tools/seeded_regress.py [--only C10,C14] [--out seeded/REGRESSION.json]

Runs from the directory it lives in (so it works inside a `vp run` snapshot): for every seeded/<name>/ (not obsolete/) the
patch is applied to a scratch worktree of /repo HEAD and the catching check(s) are run with VERIF_REPO pointing at it.
Prints one line per change and writes a JSON summary.  Scratch trees are removed as it goes.
"""
import argparse
import json
import os
import re
import shutil
import subprocess
import time

HERE = os.path.dirname(os.path.dirname(os.path.abspath(__file__)))
ap = argparse.ArgumentParser()
ap.add_argument("--only", default=None)
ap.add_argument("--names", default=None, help="comma-separated directory names; only these")
ap.add_argument("--out", default=os.path.join(HERE, "seeded", "REGRESSION.json"))
a = ap.parse_args()
only = set(a.only.split(",")) if a.only else None
names_only = set(a.names.split(",")) if a.names else None


def sh(cmd, **kw):
    return subprocess.run(cmd, capture_output=True, text=True, **kw)


head = sh(["git", "-C", "/repo", "rev-parse", "--short", "HEAD"]).stdout.strip()
rows = []
names = sorted(n for n in os.listdir(os.path.join(HERE, "seeded")) if os.path.isfile(os.path.join(HERE, "seeded", n, "meta.json")))
for name in names:
    d = os.path.join(HERE, "seeded", name)
    meta = json.load(open(os.path.join(d, "meta.json")))
    if only and meta["property"] not in only:
        continue
    if names_only and name not in names_only:
        continue
    catching = sorted(c for c, v in (meta.get("checks") or {}).items() if v.get("caught")) or [meta["property"]]
    W = f"/tmp/sr-{name}-{os.getpid()}"
    OUT = f"/dev/shm/sr-out-{name}-{os.getpid()}"
    sh(["git", "-C", "/repo", "worktree", "add", "-q", "--detach", W, "HEAD"])
    row = {"name": name, "property": meta["property"], "checks": {}}
    try:
        for f in os.listdir("/repo"):
            if f.startswith("molli_xt") and f.endswith(".so"):
                shutil.copy(os.path.join("/repo", f), W)
        p = sh(["git", "-C", W, "apply", os.path.join(d, "patch.diff")])
        if p.returncode:
            row["stale"] = True
            print(f"{name}: patch no longer applies to {head}")
        else:
            caught = False
            for cid in catching:
                t0 = time.time()
                r = sh([os.path.join(HERE, "check"), cid, "--tier", "quick"], env=dict(os.environ, VERIF_REPO=W, VERIF_OUT_DIR=OUT), timeout=7200)
                sigs = re.findall(r"VIOLATION property=\S+ replay=\S+\n\s+clause=\S+ signature=(\S+)", r.stdout)
                hits = None
                try:
                    with open(os.path.join(OUT, "evidence", f"{cid}.json")) as f_:
                        ev_ = json.load(f_)
                    hits = sum(ev_["coverage"].get("violation_counts", {}).values())
                    runs_ = ev_["coverage"].get("simulated_runs")
                except Exception:  # noqa: BLE001
                    runs_ = None
                # margin: how many of the runs violated (a detection that hangs on one or two runs is fragile)
                row["checks"][cid] = {"exit": r.returncode, "signatures": sigs[:3], "wall_s": round(time.time() - t0, 1),
                                      "violating_runs": hits, "runs": runs_}
                caught = caught or r.returncode == 1
                if r.returncode not in (0, 1):
                    row["checks"][cid]["tail"] = r.stdout[-400:]
            row["caught"] = caught
            print(f"{name}: {'CAUGHT' if caught else 'MISSED'} " + " ".join(f"{c}=exit{v['exit']}({v.get('violating_runs')} violating runs)" for c, v in row["checks"].items()), flush=True)
    finally:
        sh(["git", "-C", "/repo", "worktree", "remove", "--force", W])
        shutil.rmtree(OUT, ignore_errors=True)
    rows.append(row)
sh(["git", "-C", "/repo", "worktree", "prune"])
summary = {"repo_head": head, "n": len(rows), "caught": sum(1 for r in rows if r.get("caught")),
           "missed": [r["name"] for r in rows if not r.get("caught") and not r.get("stale")], "stale": [r["name"] for r in rows if r.get("stale")], "rows": rows}
with open(a.out, "w") as f:
    json.dump(summary, f, indent=1)
print(f"seeded regression: {summary['caught']}/{summary['n']} caught; missed {summary['missed']}; stale {summary['stale']}")
