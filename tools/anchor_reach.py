#!/venv/bin/python
"""Development tool: which lines of the anchored molli files do the workloads of a check actually execute?

  tools/anchor_reach.py <ID> [n_runs] [tier]

Runs the first n plans of the check in THIS process (threads included) under sys.monitoring LINE events restricted to
the files the property is anchored in, and prints, per file, the executable lines never reached (grouped by function).
Not a check and not evidence - it tells the author which behaviour behind a property no workload reaches yet.
"""
import ast
import importlib
import os
import sys

sys.path.insert(0, os.path.dirname(os.path.dirname(os.path.abspath(__file__))))
sys.dont_write_bytecode = True
from simv.core import env  # noqa: E402

env.bootstrap()
from simv.core import engine, rng  # noqa: E402

ANCHORS = {
    "C02": ["molli/storage/ukvfile.py", "molli/storage/backends.py", "molli/storage/collection.py"],
    "C03": ["molli/storage/ukvfile.py", "molli/storage/backends.py"],
    "C04": ["molli/storage/backends.py", "molli/_aux/lock.py", "molli/storage/ukvfile.py", "molli/storage/collection.py"],
    "C10": ["molli/parsing/mol2.py", "molli/parsing/xyz.py", "molli/parsing/_reader.py"],
    "C14": ["molli/chem/ensemble.py"],
    "C17": ["molli/pipeline/job.py", "molli/pipeline/runner.py", "molli/pipeline/driver.py"],
    "C18": ["molli/pipeline/job.py", "molli/pipeline/runner.py", "molli/storage/collection.py"],
}


def main():
    pid = sys.argv[1].upper()
    n = int(sys.argv[2]) if len(sys.argv) > 2 else 300
    tier = sys.argv[3] if len(sys.argv) > 3 else "quick"
    mod = importlib.import_module(engine.CHECK_MODULES[pid])
    files = {os.path.join(env.REPO, f): f for f in ANCHORS[pid]}
    hit = {f: set() for f in files}
    mon = sys.monitoring
    TOOL = mon.COVERAGE_ID
    mon.use_tool_id(TOOL, "anchor_reach")

    def on_line(code, line):
        s = hit.get(code.co_filename)
        if s is None:
            return mon.DISABLE
        s.add(line)
        return mon.DISABLE   # each (code, line) location reports once

    mon.register_callback(TOOL, mon.events.LINE, on_line)
    mon.set_events(TOOL, mon.events.LINE)
    if hasattr(mod, "pre_checks") and os.environ.get("REACH_PRE"):
        mod.pre_checks(tier)
    for i in range(n):
        plan = mod.gen_plan(rng.rng_for(mod.CHECK, i, 0), tier, i)
        mod.run_plan(plan)
    mon.set_events(TOOL, 0)
    for path, rel in files.items():
        src = open(path).read()
        tree = ast.parse(src)
        # executable lines ~ lines that start a statement inside a function body
        funcs = []
        for node in ast.walk(tree):
            if isinstance(node, (ast.FunctionDef, ast.AsyncFunctionDef)):
                lines = set()
                for sub in ast.walk(node):
                    if isinstance(sub, ast.stmt) and sub is not node and not isinstance(sub, (ast.FunctionDef, ast.ClassDef)):
                        if isinstance(sub, ast.Expr) and isinstance(sub.value, ast.Constant) and isinstance(sub.value.value, str):
                            continue
                        lines.add(sub.lineno)
                funcs.append((node.lineno, node.name, lines))
        funcs.sort()
        tot = sum(len(l) for _, _, l in funcs)
        got = sum(len(l & hit[path]) for _, _, l in funcs)
        print(f"== {rel}: {got}/{tot} statement lines inside functions reached")
        for ln, name, lines in funcs:
            miss = sorted(lines - hit[path])
            if miss and lines & hit[path]:
                print(f"   partly  {name} (line {ln}): never reached {miss}")
        untouched = [f"{name}@{ln}" for ln, name, lines in funcs if lines and not (lines & hit[path])]
        print(f"   untouched functions: {', '.join(untouched)}")


main()
