#!/bin/sh
# Benign changes (refactorings that keep every property): each check named for a patch must stay QUIET (exit 0).
#   tools/benign.sh            all patches in tools/benign/
#   tools/benign.sh <name>     one of them
cd "$(dirname "$0")/.." || exit 2
fail=0
checks_for() {
  case "$1" in
    rename_write_queue|keys_returns_frozenset) echo "C02 C03 C04" ;;
    rename_toc_eof|mapblocks_always_rescans) echo "C02 C03 C04" ;;
    lockname_sha256|lock_polled_once_a_second) echo "C04" ;;
    rename_conf_id|iter_is_a_list_iterator|getitem_negative_index_normalised) echo "C14" ;;
    runner_captures_through_pipes|runner_adds_job_id_to_the_environment|runner_writes_a_marker_file) echo "C17 C18" ;;
    readers_take_the_exclusive_lock|writing_flushes_before_the_body_too) echo "C02 C03 C04" ;;
    scratch_prefix) echo "C17 C18" ;;
    mol2_error_is_valueerror) echo "C10" ;;
    *) echo "C02 C03 C04 C10 C14 C17 C18" ;;
  esac
}
for f in tools/benign/${1:-*}.diff; do
  n=$(basename "$f" .diff)
  for id in $(checks_for "$n"); do
    tools/mutant.sh "$f" "$id" quick >/tmp/benign.$n.$id.log 2>&1; rc=$?
    echo "benign $n vs $id: exit $rc (want 0) $(grep -c '^WARNING' /tmp/benign.$n.$id.log) warnings"
    [ $rc -eq 0 ] || { fail=1; grep -E "VIOLATION|HARNESS|NONDET|clause=" /tmp/benign.$n.$id.log | head -4; }
  done
done
[ $fail -eq 0 ] && echo "BENIGN OK" || echo "BENIGN: FALSE ALARMS"
exit $fail
