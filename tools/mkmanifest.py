import json
NA = {
 "C01": "pure function of the stored object: the encode->msgpack->decode round trip has no schedule, clock, stream fault or crash point in its statement; the file layer it travels through is C02/C03's subject. Deterministic simulation has nothing to vary here.",
 "C05": "in-memory edit histories on one object from one thread: no I/O, timer, peer or fault; a model-based check without a simulated environment would be stateful property testing, a different technique family.",
 "C06": "copy/pickle/deepcopy/join results are pure functions of object state; independence is observed by sequential mutation, no schedule or fault involved.",
 "C07": "mol2 write->read is a pure text codec and a fixed-point statement over inputs.",
 "C08": "xyz write->read and the unit table are a pure text codec plus a constant lookup.",
 "C09": "a dispatch matrix over formats/source kinds/output types on in-memory streams; no fault, ordering or timing clause.",
 "C11": "numeric identities of rotations/translations over inputs; nothing to schedule or fault.",
 "C12": "a geometric construction over input fragments; 'no hidden state' is determinism of a function, not an interleaving.",
 "C13": "parser output vs. drawing under metamorphic input transformations; no stream fault, time or concurrency in the statement.",
 "C15": "graph algorithms compared with graph theory on input graphs (pure functions).",
 "C16": "a pure function of the molecule (hydrogen counts and placements).",
 "C19": "numeric kernels and grid descriptors compared with their definitions; compiled kernels share no state between calls.",
}
CHECKS = json.load(open('/verif/tools/manifest_checks.json'))
m = {
 "version": 1,
 "setup_cmd": "./check setup",
 "hooks": {
   "guard": "SEDENMARKLAB_MOLLI_VERIF",
   "enable": "no source hooks exist: every seam is a module-level name patched from /verif at run time (DESIGN.md 2.4); the checks import molli from /repo's working tree (editable install) and set SEDENMARKLAB_MOLLI_VERIF=1 only as a marker",
   "baseline_off_cmd": "cd /repo && /venv/bin/python -m pytest -ra -q -p no:cacheprovider --timeout=900 --continue-on-collection-errors",
   "source_commits": [],
   "add_only": True
 },
 "engines": [
   {"name": "simv", "path": "simv/", "serves_properties": [c["property_id"] for c in CHECKS],
    "kind_free_text": "own deterministic simulator: simulated kernel (file system with O_APPEND / rename / symlinks / stat, fd table with descriptor-level calls, POSIX record locks with inode identity, virtual clock, process table) under the real io.Buffered*/fasteners/molli code; baton-passed threads under a seeded scheduler; seeded plan generation; fault injection (kill/torn write/EIO/ENOSPC/exceptions/stalls/timeouts/child failures/stream damage); reference-model oracles; ddmin shrinking; JSON replay files"}
 ],
 "checks": CHECKS,
 "not_applicable": [{"property_id": k, "reason": v} for k, v in sorted(NA.items())],
 "notes": "Exit codes: 0 held / 1 VIOLATION (replay file written) / 2 harness error (SEAM-LOST, NONDETERMINISM, worker crash; never a verdict) / 3 NOT-REPRODUCED on replay. Known findings: /verif/known_findings.json."
}
claimed = {c["property_id"] for c in CHECKS}
m["not_applicable"] = [x for x in m["not_applicable"] if x["property_id"] not in claimed]
json.dump(m, open('/verif/MANIFEST.json','w'), indent=1)
