#!/bin/sh
# Sensitivity: run a check against a scratch copy of /repo carrying one patch.
#   tools/mutant.sh <patch-file> <ID> [tier]      (patch relative to repo root; "-R:<commit>" reverts a commit)
# The scratch worktree lives under /dev/shm and is removed afterwards.  Replays written
# during a mutant run go to a throw-away directory (VERIF_REPLAY_DIR), evidence likewise.
set -u
PATCH="$1"; ID="$2"; TIER="${3:-quick}"
case "$PATCH" in -R:*) ;; /*) ;; *) PATCH="$(pwd)/$PATCH" ;; esac
W="/dev/shm/molli-mut-$$"
git -C /repo worktree add -q --detach "$W" HEAD || exit 2
cp /repo/molli_xt*.so "$W"/ 2>/dev/null
case "$PATCH" in
  -R:*) git -C /repo show "${PATCH#-R:}" | git -C "$W" apply -R || { echo "revert failed"; git -C /repo worktree remove --force "$W"; exit 2; } ;;
  *) git -C "$W" apply "$PATCH" || { echo "patch failed"; git -C /repo worktree remove --force "$W"; exit 2; } ;;
esac
OUT="/dev/shm/molli-mut-out-$$"; mkdir -p "$OUT"
VERIF_REPO="$W" VERIF_OUT_DIR="$OUT" /verif/check "$ID" --tier "$TIER"
RC=$?
if [ -n "${REPLAY_CHECK:-}" ]; then
  # every replay file written must reproduce (exit 1, same signature and digest) on the changed tree, in a fresh process
  for f in "$OUT"/replays/"$ID"/*.json; do
    [ -f "$f" ] || continue
    VERIF_REPO="$W" VERIF_OUT_DIR="$OUT" /verif/check replay "$f" >/dev/null 2>&1; r=$?
    echo "replay $(basename "$f") on the changed tree: exit $r (want 1)"
    [ $r -eq 1 ] || RC=4
  done
fi
if [ -n "${KEEP_OUT:-}" ]; then echo "outputs kept in $OUT"; else rm -rf "$OUT"; fi
git -C /repo worktree remove --force "$W"
git -C /repo worktree prune
exit $RC
